"""Reference implementation of the FEEL built-in functions of DMN 1.3 section 10.3.4 (tables 72-76) that C08 names.

Written from the specification text and its examples, over plain Python values; imports nothing from the code under test.

Values:  None | bool | Decimal | str (indexed by code point) | list | dict (context) | Lambda (ordering function of `sort`)
Result of `call(name, args)`:
    Exact(v)        the specification defines the value v for this argument tuple (null outside the domain)
    Bag(v)          v is a list whose order the specification does not fix (get entries)
    Approx(var)     the result r is a number with r*r == var within REL (stddev: the last digits depend on evaluation order)
    NumText(v)      the result is a string that is plain decimal text denoting exactly v (string(number))
    Unspec(reason)  the DMN text is not decisive for this tuple: nothing but totality and named == positional is asserted

Where this file says Unspec the reason is one of a small set of classes (see the constants U_*), so the histogram of the
check shows how much of the generated space is actually asserted.
"""
import re as _pyre
from decimal import Decimal
from fractions import Fraction

from .. import dec

CTX = dec.ctx128()


# ------------------------------------------------------------------------------------------------------------
# results
# ------------------------------------------------------------------------------------------------------------

class Exact:
    def __init__(self, v):
        self.v = v


class Bag:
    def __init__(self, v):
        self.v = v


class Approx:
    def __init__(self, var):
        self.var = var


class NumText:
    def __init__(self, v):
        self.v = v


class Unspec:
    """the DMN text does not decide the value; `never` lists values that NO reading of it allows"""

    def __init__(self, reason, never=()):
        self.reason = reason
        self.never = tuple(never)


class Lambda:
    """The `precedes` argument of sort: op is '<' or '>' (a strict order on numbers or on strings) or 'other'."""

    def __init__(self, op):
        self.op = op


NULL = Exact(None)

U_SINGLETON_WRAP = "non-list-where-list-expected"      # 10.3.2.9.4 implicit conversion to a singleton list may apply
U_SINGLETON_UNWRAP = "singleton-list-where-scalar-expected"
U_NULL_FOR_LIST = "null-where-list-expected"
U_FRACTION = "fractional-position-or-length"
U_NULL_OPTIONAL = "explicit-null-for-optional-parameter"
U_NULLS_IN_MINMAX = "min-max-with-null-items"
U_NESTED_AGG = "aggregate-over-list-arguments"
U_NONBOOL_ITEM = "all-any-non-boolean-item-next-to-decisive-item"
U_EMPTY_MATCH = "pattern-matches-empty-string"
U_FLAGS = "flags-outside-smix"
U_REPLACEMENT = "invalid-replacement-string"
U_EMPTY_INPUT_SPLIT = "split-of-empty-string"
U_NUMBER_FORM = "number-from-not-a-feel-literal"
U_NUMBER_SEP = "number-separators-ambiguous"
U_STRING_OF_COMPOSITE = "string-of-list-or-context"
U_SORT = "sort-precedes-not-a-strict-order-on-the-items"
U_INTERMEDIATE_OVERFLOW = "aggregate-whose-intermediate-result-is-out-of-range"
U_UTF16_ORDER = "string-order-differs-between-utf16-and-code-points"


# ------------------------------------------------------------------------------------------------------------
# kinds, equality
# ------------------------------------------------------------------------------------------------------------

def kind(v):
    if v is None:
        return "null"
    if isinstance(v, bool):
        return "boolean"
    if isinstance(v, Decimal):
        return "number"
    if isinstance(v, str):
        return "string"
    if isinstance(v, list):
        return "list"
    if isinstance(v, dict):
        return "context"
    if isinstance(v, Lambda):
        return "function"
    raise TypeError(repr(v))


def feel_eq(a, b):
    """FEEL `=`: True / False / None (10.3.2.15, table 53)."""
    ka, kb = kind(a), kind(b)
    if ka == "null" or kb == "null":
        return ka == kb
    if ka != kb:
        return None
    if ka == "list":
        if len(a) != len(b):
            return False
        res = True
        for x, y in zip(a, b):
            e = feel_eq(x, y)
            if e is False:
                return False
            if e is None:
                res = None
        return res
    if ka == "context":
        if set(a) != set(b):
            return False
        res = True
        for k in a:
            e = feel_eq(a[k], b[k])
            if e is False:
                return False
            if e is None:
                res = None
        return res
    if ka == "function":
        return None
    return a == b


def same(a, b):
    return feel_eq(a, b) is True


def identical(a, b):
    """Structural identity of two values (kind-aware: True is not 1); numbers by value."""
    ka, kb = kind(a), kind(b)
    if ka != kb:
        return False
    if ka == "list":
        return len(a) == len(b) and all(identical(x, y) for x, y in zip(a, b))
    if ka == "context":
        return set(a) == set(b) and all(identical(a[k], b[k]) for k in a)
    if ka == "function":
        return a.op == b.op
    return a == b


def is_int(d):
    return d == d.to_integral_value()


# ------------------------------------------------------------------------------------------------------------
# regular expressions: the sub-grammar on which XPath 2.0 (what DMN refers to), Java and Rust agree
# ------------------------------------------------------------------------------------------------------------

class RegexError(Exception):
    pass


WS_X = " \t\n\r"


class _P:
    """Recursive-descent parser producing a tuple tree."""

    def __init__(self, text):
        self.t = text
        self.i = 0
        self.groups = 0

    def peek(self):
        return self.t[self.i] if self.i < len(self.t) else None

    def parse(self):
        n = self.alt()
        if self.i != len(self.t):
            raise RegexError("unbalanced )")
        return n

    def alt(self):
        branches = [self.cat()]
        while self.peek() == "|":
            self.i += 1
            branches.append(self.cat())
        return branches[0] if len(branches) == 1 else ("alt", branches)

    def cat(self):
        items = []
        while self.peek() is not None and self.peek() not in "|)":
            items.append(self.piece())
        return ("cat", items)

    def piece(self):
        c = self.peek()
        if c in "*+?{":
            raise RegexError("quantifier without atom")
        atom = self.atom()
        c = self.peek()
        if c is None or c not in "*+?{":
            return atom
        if atom[0] in ("bol", "eol"):
            raise RegexError("quantified anchor")
        if c == "*":
            lo, hi = 0, None
            self.i += 1
        elif c == "+":
            lo, hi = 1, None
            self.i += 1
        elif c == "?":
            lo, hi = 0, 1
            self.i += 1
        else:
            j = self.t.find("}", self.i)
            if j < 0:
                raise RegexError("unclosed {")
            body = self.t[self.i + 1:j]
            m = _pyre.fullmatch(r"([0-9]+)(,([0-9]*))?", body)
            if not m:
                raise RegexError("bad {}")
            lo = int(m.group(1))
            hi = lo if m.group(2) is None else (None if m.group(3) == "" else int(m.group(3)))
            if hi is not None and hi < lo:
                raise RegexError("bad range in {}")
            self.i = j + 1
        lazy = False
        if self.peek() == "?":
            lazy = True
            self.i += 1
        if self.peek() is not None and self.peek() in "*+?{":
            raise RegexError("nested quantifier")
        return ("rep", atom, lo, hi, lazy)

    def atom(self):
        c = self.peek()
        self.i += 1
        if c == "(":
            idx = None
            if self.t.startswith("?:", self.i):
                self.i += 2
            elif self.peek() == "?":
                raise RegexError("unsupported group")
            else:
                self.groups += 1
                idx = self.groups
            n = self.alt()
            if self.peek() != ")":
                raise RegexError("unclosed (")
            self.i += 1
            return ("group", idx, n)
        if c == "[":
            return self.cls()
        if c == ".":
            return ("any",)
        if c == "^":
            return ("bol",)
        if c == "$":
            return ("eol",)
        if c == "\\":
            return self.escape(False)
        if c in ")]}":
            raise RegexError("unbalanced " + c)
        return ("char", c)

    def escape(self, in_class):
        c = self.peek()
        if c is None:
            raise RegexError("trailing backslash")
        self.i += 1
        if c in "dDsS":
            return ("esc", c)
        if c == "n":
            return ("char", "\n")
        if c == "t":
            return ("char", "\t")
        if c in "\\.[]()*+?{}^$|-":
            return ("char", c)
        raise RegexError("unsupported escape \\" + c)

    def cls(self):
        neg = False
        if self.peek() == "^":
            neg = True
            self.i += 1
        items = []
        while True:
            c = self.peek()
            if c is None:
                raise RegexError("unclosed [")
            if c == "]":
                if not items:
                    raise RegexError("empty class")
                self.i += 1
                break
            if c == "[":
                raise RegexError("nested class")
            self.i += 1
            if c == "\\":
                a = self.escape(True)
            else:
                a = ("char", c)
            if a[0] == "char" and self.peek() == "-" and self.i + 1 < len(self.t) and self.t[self.i + 1] != "]":
                self.i += 1
                d = self.peek()
                self.i += 1
                if d == "\\":
                    b = self.escape(True)
                    if b[0] != "char":
                        raise RegexError("class escape as range end")
                    d = b[1]
                elif d == "[":
                    raise RegexError("nested class")
                if ord(d) < ord(a[1]):
                    raise RegexError("reversed range")
                items.append(("r", a[1], d))
            elif a[0] == "char":
                items.append(("r", a[1], a[1]))
            else:
                items.append(a)
        return ("class", neg, items)


def _strip_x(pattern):
    """Flag x: whitespace outside character classes is removed before parsing."""
    out, in_cls, i = [], False, 0
    while i < len(pattern):
        c = pattern[i]
        if c == "\\" and i + 1 < len(pattern):
            out.append(pattern[i:i + 2])
            i += 2
            continue
        if c == "[":
            in_cls = True
        elif c == "]":
            in_cls = False
        if c in WS_X and not in_cls:
            i += 1
            continue
        out.append(c)
        i += 1
    return "".join(out)


def _esc_match(e, c):
    if e == "d":
        return c.isdecimal()
    if e == "D":
        return not c.isdecimal()
    if e == "s":
        return c in " \t\n\r"
    return c not in " \t\n\r"


def _fold(c):
    return (c.lower(), c.upper())


class Prog:
    def __init__(self, pattern, flags=""):
        self.i = "i" in flags
        self.s = "s" in flags
        self.m = "m" in flags
        if "x" in flags:
            pattern = _strip_x(pattern)
        p = _P(pattern)
        self.tree = p.parse()
        self.groups = p.groups
        self.steps = 0

    # --- matching: continuation passing, captures as a tuple
    def _char_eq(self, pc, c):
        if pc == c:
            return True
        return self.i and (pc in _fold(c) or c in _fold(pc))

    def _cls(self, node, c):
        _, neg, items = node
        hit = False
        cands = {c} | (set(x for x in _fold(c) if len(x) == 1) if self.i else set())
        for it in items:
            if it[0] == "r":
                if any(it[1] <= x <= it[2] for x in cands):
                    hit = True
                    break
            elif _esc_match(it[1], c):
                hit = True
                break
        return hit != neg

    def _m(self, node, s, i, caps, k):
        self.steps += 1
        if self.steps > 2_000_000:
            raise RegexError("budget")
        t = node[0]
        if t == "char":
            if i < len(s) and self._char_eq(node[1], s[i]):
                return k(i + 1, caps)
            return None
        if t == "any":
            if i < len(s) and (self.s or s[i] != "\n"):
                return k(i + 1, caps)
            return None
        if t == "esc":
            if i < len(s) and _esc_match(node[1], s[i]):
                return k(i + 1, caps)
            return None
        if t == "class":
            if i < len(s) and self._cls(node, s[i]):
                return k(i + 1, caps)
            return None
        if t == "bol":
            if i == 0 or (self.m and s[i - 1] == "\n"):
                return k(i, caps)
            return None
        if t == "eol":
            if i == len(s) or (self.m and s[i] == "\n"):
                return k(i, caps)
            return None
        if t == "cat":
            items = node[1]

            def step(j, i2, caps2):
                if j == len(items):
                    return k(i2, caps2)
                return self._m(items[j], s, i2, caps2, lambda i3, c3: step(j + 1, i3, c3))
            return step(0, i, caps)
        if t == "alt":
            for b in node[1]:
                r = self._m(b, s, i, caps, k)
                if r is not None:
                    return r
            return None
        if t == "group":
            idx = node[1]
            if idx is None:
                return self._m(node[2], s, i, caps, k)

            def close(i2, caps2):
                c3 = list(caps2)
                c3[idx] = (i, i2)
                return k(i2, tuple(c3))
            return self._m(node[2], s, i, caps, close)
        if t == "rep":
            _, sub, lo, hi, lazy = node

            def loop(n, i2, caps2):
                def more():
                    if hi is not None and n >= hi:
                        return None

                    def after(i3, c3):
                        if i3 == i2 and n >= lo:
                            return None  # an iteration that consumed nothing adds nothing
                        return loop(n + 1, i3, c3)
                    return self._m(sub, s, i2, caps2, after)

                def done():
                    return k(i2, caps2) if n >= lo else None
                if lazy:
                    r = done()
                    return r if r is not None else more()
                r = more()
                return r if r is not None else done()
            return loop(0, i, caps)
        raise AssertionError(t)

    def search(self, s, start=0):
        """Leftmost match at or after start: (begin, end, caps) or None; caps[0] is the whole match."""
        for b in range(start, len(s) + 1):
            caps0 = tuple([None] * (self.groups + 1))
            r = self._m(self.tree, s, b, caps0, lambda e, c: (e, c))
            if r is not None:
                e, c = r
                c = list(c)
                c[0] = (b, e)
                return b, e, c
        return None


def nullable(node):
    """Can the node match the empty string (syntactically; anchors count as empty)?"""
    t = node[0]
    if t in ("bol", "eol"):
        return True
    if t in ("char", "any", "esc", "class"):
        return False
    if t == "cat":
        return all(nullable(x) for x in node[1])
    if t == "alt":
        return any(nullable(x) for x in node[1])
    if t == "group":
        return nullable(node[2])
    if t == "rep":
        return node[2] == 0 or nullable(node[1])
    raise AssertionError(t)


def to_python_re(node, flags=""):
    """The same tree in Python `re` syntax (only for cross-checking this matcher, never the primary oracle)."""
    t = node[0]
    if t == "char":
        return _pyre.escape(node[1])
    if t == "any":
        return "."
    if t == "esc":
        return {"d": r"\d", "D": r"\D", "s": r"[ \t\n\r]", "S": r"[^ \t\n\r]"}[node[1]]
    if t == "class":
        body = ""
        for it in node[2]:
            if it[0] == "r":
                body += _pyre.escape(it[1]) if it[1] == it[2] else _pyre.escape(it[1]) + "-" + _pyre.escape(it[2])
            else:
                body += {"d": r"\d", "D": r"\D", "s": r" \t\n\r", "S": None}[it[1]] or ""
                if it[1] == "S":
                    raise RegexError("no python form")
        return "[" + ("^" if node[1] else "") + body + "]"
    if t == "bol":
        return "^"
    if t == "eol":
        return "$" if "m" in flags else r"\Z"
    if t == "cat":
        return "".join(to_python_re(x, flags) for x in node[1])
    if t == "alt":
        return "(?:" + "|".join(to_python_re(x, flags) for x in node[1]) + ")"
    if t == "group":
        return ("(" if node[1] is not None else "(?:") + to_python_re(node[2], flags) + ")"
    if t == "rep":
        _, sub, lo, hi, lazy = node
        inner = to_python_re(sub, flags)
        if sub[0] in ("cat", "rep"):
            inner = "(?:" + inner + ")"
        q = "{%d,%s}" % (lo, "" if hi is None else hi)
        return inner + q + ("?" if lazy else "")
    raise AssertionError(t)


def python_flags(flags):
    f = 0
    if "i" in flags:
        f |= _pyre.IGNORECASE
    if "s" in flags:
        f |= _pyre.DOTALL
    if "m" in flags:
        f |= _pyre.MULTILINE
    return f


def _flags_ok(flags):
    return all(c in "smix" for c in flags) and len(set(flags)) == len(flags)


def re_replace_all(prog, s, repl_parts):
    out, pos = [], 0
    while pos <= len(s):
        m = prog.search(s, pos)
        if m is None:
            break
        b, e, caps = m
        if e == b:
            raise RegexError("empty match")
        out.append(s[pos:b])
        for kind_, v in repl_parts:
            if kind_ == "lit":
                out.append(v)
            else:
                g = caps[v] if v < len(caps) else None
                out.append(s[g[0]:g[1]] if g is not None else "")
        pos = e
    out.append(s[pos:])
    return "".join(out)


def parse_replacement(r):
    """XPath 2.0 fn:replace replacement string: $N, \\$ and \\\\ ; anything else with $ or \\ is an error (None)."""
    parts, i = [], 0
    while i < len(r):
        c = r[i]
        if c == "\\":
            if i + 1 < len(r) and r[i + 1] in "\\$":
                parts.append(("lit", r[i + 1]))
                i += 2
                continue
            return None
        if c == "$":
            if i + 1 < len(r) and r[i + 1].isascii() and r[i + 1].isdigit():
                # generators use single-digit references that are not followed by another digit
                if i + 2 < len(r) and r[i + 2].isascii() and r[i + 2].isdigit():
                    return None
                parts.append(("grp", int(r[i + 1])))
                i += 2
                continue
            return None
        parts.append(("lit", c))
        i += 1
    return parts


# ------------------------------------------------------------------------------------------------------------
# argument checking helpers
# ------------------------------------------------------------------------------------------------------------

class _Out(Exception):
    def __init__(self, result):
        self.result = result


def _scalar(v, want):
    """Argument for a parameter whose domain is the scalar kind `want`."""
    k = kind(v)
    if k == want:
        return v
    if k == "list" and len(v) == 1 and kind(v[0]) == want:
        raise _Out(Unspec(U_SINGLETON_UNWRAP))
    raise _Out(NULL)


def _list(v):
    k = kind(v)
    if k == "list":
        return v
    if k == "null":
        raise _Out(Unspec(U_NULL_FOR_LIST))
    raise _Out(Unspec(U_SINGLETON_WRAP))


def _position(v, n):
    """start position / position: a non-zero integer in [-n..n]; returns the 0-based index."""
    p = _scalar(v, "number")
    if not is_int(p):
        raise _Out(Unspec(U_FRACTION))
    if p == 0 or abs(p) > n:
        raise _Out(NULL)
    p = int(p)
    return p - 1 if p > 0 else n + p


def _length(v, avail):
    l = _scalar(v, "number")
    if not is_int(l):
        raise _Out(Unspec(U_FRACTION))
    if l < 1 or l > avail:
        raise _Out(NULL)
    return int(l)


def _slice(seq, args):
    n = len(seq)
    if len(args) == 3 and args[2] is None:
        # check the position first so that an out-of-domain position stays asserted
        _position(args[1], n)
        raise _Out(Unspec(U_NULL_OPTIONAL))
    # the kinds of all arguments are checked before any range
    if len(args) == 3:
        _scalar(args[2], "number")
    i = _position(args[1], n)
    if len(args) == 2:
        return seq[i:]
    l = _length(args[2], n - i)
    return seq[i:i + l]


def _items(args):
    """list | c1..cN convention of min, max, sum, mean, all, any, median, stddev, mode."""
    if len(args) == 0:
        raise _Out(NULL)
    if len(args) == 1:
        a = args[0]
        if kind(a) == "list":
            return a
        return [a]
    if any(kind(a) == "list" for a in args):
        raise _Out(Unspec(U_NESTED_AGG))
    return list(args)


def _numbers(items):
    if any(kind(x) == "list" for x in items):
        raise _Out(Unspec(U_NESTED_AGG))
    if any(kind(x) != "number" for x in items):
        raise _Out(NULL)
    return items


def _arity(args, lo, hi=None):
    hi = lo if hi is None else hi
    if not (lo <= len(args) <= hi):
        raise _Out(NULL)




def _utf16_safe(strings):
    """Code-point order and UTF-16 code-unit order agree unless U+E000..U+FFFF meets a supplementary character."""
    hi_bmp = any(0xE000 <= ord(c) <= 0xFFFF for s in strings for c in s)
    supp = any(ord(c) > 0xFFFF for s in strings for c in s)
    return not (hi_bmp and supp)


# ------------------------------------------------------------------------------------------------------------
# the functions
# ------------------------------------------------------------------------------------------------------------

def _kinds(args, wants):
    """Checks every argument against the kind its parameter wants ('any' = no constraint). A clearly foreign argument
    makes the tuple null whatever the others are; otherwise the first unspecified conversion decides."""
    pending = None
    out = []
    for v, want in zip(args, wants):
        try:
            if want == "any":
                out.append(v)
            elif want == "list":
                out.append(_list(v))
            else:
                out.append(_scalar(v, want))
        except _Out as o:
            if isinstance(o.result, Exact):
                raise
            pending = pending or o
            out.append(None)
    if pending is not None:
        raise pending
    return out


WHITE_SPACE = set("\t\n\x0b\x0c\r \x85\xa0\u1680\u2028\u2029\u202f\u205f\u3000") | {chr(c) for c in range(0x2000, 0x200B)}
NUM_LITERAL = _pyre.compile(r"-?([0-9]+(\.[0-9]+)?|\.[0-9]+)\Z")


def f_substring(args):
    _arity(args, 2, 3)
    s = _kinds(args, ["string", "number", "any"])[0]
    return Exact(_slice(s, [s] + list(args[1:])))


def f_string_length(args):
    _arity(args, 1)
    return Exact(Decimal(len(_scalar(args[0], "string"))))


def f_upper_case(args):
    _arity(args, 1)
    return Exact(_scalar(args[0], "string").upper())


def f_lower_case(args):
    _arity(args, 1)
    return Exact(_scalar(args[0], "string").lower())


def _two_strings(args):
    _arity(args, 2)
    return _kinds(args, ["string", "string"])


def f_substring_before(args):
    s, m = _two_strings(args)
    i = s.find(m)
    return Exact(s[:i] if i >= 0 else "")


def f_substring_after(args):
    s, m = _two_strings(args)
    i = s.find(m)
    return Exact(s[i + len(m):] if i >= 0 else "")


def f_contains(args):
    s, m = _two_strings(args)
    return Exact(m in s)


def f_starts_with(args):
    s, m = _two_strings(args)
    return Exact(s.startswith(m))


def f_ends_with(args):
    s, m = _two_strings(args)
    return Exact(s.endswith(m))


def _flags_arg(args, idx):
    if len(args) <= idx:
        return ""
    if args[idx] is None:
        raise _Out(Unspec(U_NULL_OPTIONAL))
    f = _scalar(args[idx], "string")
    if not _flags_ok(f):
        raise _Out(Unspec(U_FLAGS))
    return f


def f_matches(args):
    _arity(args, 2, 3)
    s, p = _kinds(args, ["string", "string"])
    f = _flags_arg(args, 2)
    try:
        prog = Prog(p, f)
    except RegexError:
        return NULL
    return Exact(prog.search(s) is not None)


def f_replace(args):
    _arity(args, 3, 4)
    s, p, r = _kinds(args, ["string", "string", "string"])
    f = _flags_arg(args, 3)
    try:
        prog = Prog(p, f)
    except RegexError:
        return NULL
    if prog.search("") is not None:
        return Unspec(U_EMPTY_MATCH)
    parts = parse_replacement(r)
    if parts is None:
        return Unspec(U_REPLACEMENT)
    return Exact(re_replace_all(prog, s, parts))


def f_split(args):
    _arity(args, 2)
    s, p = _two_strings(args)
    try:
        prog = Prog(p, "")
    except RegexError:
        return NULL
    if prog.search("") is not None:
        return Unspec(U_EMPTY_MATCH)
    if s == "":
        return Unspec(U_EMPTY_INPUT_SPLIT)
    out, pos = [], 0
    while True:
        m = prog.search(s, pos)
        if m is None:
            break
        out.append(s[pos:m[0]])
        pos = m[1]
    out.append(s[pos:])
    return Exact(out)


def f_count(args):
    _arity(args, 1)
    return Exact(Decimal(len(_list(args[0]))))


def _minmax(args, pick):
    items = _items(args)
    if not items:
        return NULL
    if any(kind(x) == "list" for x in items):
        return Unspec(U_NESTED_AGG)
    if any(x is None for x in items):
        return Unspec(U_NULLS_IN_MINMAX)
    kinds = {kind(x) for x in items}
    if kinds == {"number"}:
        return Exact(pick(items))
    if kinds == {"string"}:
        if not _utf16_safe(items):
            return Unspec(U_UTF16_ORDER)
        return Exact(pick(items))
    return NULL   # not comparable: booleans, contexts, mixed kinds


def f_min(args):
    return _minmax(args, min)


def f_max(args):
    return _minmax(args, max)


MAX128 = Fraction(Decimal("9.999999999999999999999999999999999E+6144"))
MIN_NORMAL128 = Fraction(1, 10 ** 6143)


def _running_sum(items):
    """(decimal128 sum taken left to right, did a partial sum leave the range?)"""
    t = Decimal(0)
    for x in items:
        t = CTX.add(t, x)
        if not t.is_finite():
            return t, True
    return t, False


def f_sum(args):
    items = _numbers(_items(args))
    if not items:
        return NULL
    t, over = _running_sum(items)
    if over:
        # out of range: null when the sum itself is, undecided when only a partial sum is
        return NULL if abs(sum(Fraction(x) for x in items)) > MAX128 else Unspec(U_INTERMEDIATE_OVERFLOW)
    return Exact(t)


def f_mean(args):
    items = _numbers(_items(args))
    if not items:
        return NULL
    t, over = _running_sum(items)
    if over:
        return Unspec(U_INTERMEDIATE_OVERFLOW)      # the mean itself is never out of range
    return Exact(CTX.divide(t, Decimal(len(items))))


def f_median(args):
    items = _numbers(_items(args))
    if not items:
        return NULL
    xs = sorted(items)
    n = len(xs)
    if n % 2:
        return Exact(xs[n // 2])
    two = CTX.add(xs[n // 2 - 1], xs[n // 2])
    if not two.is_finite():
        return Unspec(U_INTERMEDIATE_OVERFLOW)
    return Exact(CTX.divide(two, Decimal(2)))


def f_mode(args):
    items = _numbers(_items(args))
    if not items:
        return Exact([])
    xs = sorted(items)
    groups = []
    for x in xs:
        if groups and groups[-1][0] == x:
            groups[-1][1] += 1
        else:
            groups.append([x, 1])
    top = max(c for _, c in groups)
    return Exact([x for x, c in groups if c == top])


def f_stddev(args):
    items = _numbers(_items(args))
    if len(items) < 2:
        return NULL
    fr = [Fraction(x) for x in items]
    n = len(fr)
    mean = sum(fr) / n
    var = sum((x - mean) ** 2 for x in fr) / (n - 1)
    if _running_sum(items)[1] or any((x - mean) ** 2 > MAX128 for x in fr) or var * (n - 1) > MAX128:
        return Unspec(U_INTERMEDIATE_OVERFLOW)
    if any(0 < (x - mean) ** 2 < MIN_NORMAL128 for x in fr):
        return Unspec(U_INTERMEDIATE_OVERFLOW)      # a square below the normal range loses digits or vanishes before the root is taken
    return Approx(var)


def _deep_has(x, v):
    return x is v or (isinstance(x, list) and any(_deep_has(y, v) for y in x))


def _all_any(args, decisive):
    try:
        items = _items(args)
    except _Out as o:
        if isinstance(o.result, Unspec) and any(_deep_has(a, decisive) for a in args):
            raise _Out(Unspec(o.result.reason, (not decisive,)))
        raise
    # whichever way lists among several arguments and items that are not booleans are read (an error: null; the deciding item wins; nested
    # lists flattened), `all` is never true with a false among the arguments and `any` never false with a true among them
    never = (not decisive,) if any(_deep_has(a, decisive) for a in args) else ()
    if any(kind(x) == "list" for x in items):
        return Unspec(U_NESTED_AGG, never)
    foreign = any(kind(x) not in ("boolean", "null") for x in items)
    if any(x is decisive for x in items):
        if foreign:
            return Unspec(U_NONBOOL_ITEM, never)
        return Exact(decisive)
    if foreign or any(x is None for x in items):
        return NULL
    return Exact(not decisive)


def f_all(args):
    return _all_any(args, False)


def f_any(args):
    return _all_any(args, True)


def f_sublist(args):
    _arity(args, 2, 3)
    l = _kinds(args, ["list", "number", "any"])[0]
    return Exact(_slice(l, args))


def f_append(args):
    if len(args) < 2:
        return NULL
    l = _list(args[0])
    return Exact(list(l) + list(args[1:]))


def f_concatenate(args):
    if len(args) < 1:
        return NULL
    out = []
    for a in args:
        out.extend(_list(a))
    return Exact(out)


def f_insert_before(args):
    _arity(args, 3)
    l = _kinds(args, ["list", "number", "any"])[0]
    i = _position(args[1], len(l))
    return Exact(l[:i] + [args[2]] + l[i:])


def f_remove(args):
    _arity(args, 2)
    l = _kinds(args, ["list", "number"])[0]
    i = _position(args[1], len(l))
    return Exact(l[:i] + l[i + 1:])


def f_reverse(args):
    _arity(args, 1)
    return Exact(list(reversed(_list(args[0]))))


def f_index_of(args):
    _arity(args, 2)
    l = _list(args[0])
    return Exact([Decimal(i + 1) for i, x in enumerate(l) if same(x, args[1])])


def _distinct(items):
    out = []
    for x in items:
        if not any(same(y, x) for y in out):
            out.append(x)
    return out


def f_union(args):
    if len(args) < 1:
        return NULL
    out = []
    for a in args:
        out.extend(_list(a))
    return Exact(_distinct(out))


def f_distinct_values(args):
    _arity(args, 1)
    return Exact(_distinct(_list(args[0])))


def _flat(l, out):
    for x in l:
        if kind(x) == "list":
            _flat(x, out)
        else:
            out.append(x)


def f_flatten(args):
    _arity(args, 1)
    out = []
    _flat(_list(args[0]), out)
    return Exact(out)


def f_sort(args):
    _arity(args, 2)
    l, fn = _kinds(args, ["list", "function"])
    if fn.op not in ("<", ">"):
        return Unspec(U_SORT)
    kinds = {kind(x) for x in l}
    if not l:
        return Exact([])
    if kinds == {"string"} and not _utf16_safe(l):
        return Unspec(U_UTF16_ORDER)
    if kinds not in ({"number"}, {"string"}):
        return Unspec(U_SORT)
    return Exact(sorted(l, reverse=(fn.op == ">")))


def f_list_contains(args):
    _arity(args, 2)
    l = _list(args[0])
    return Exact(any(same(x, args[1]) for x in l))


def f_get_value(args):
    _arity(args, 2)
    m, k = _kinds(args, ["context", "string"])
    return Exact(m.get(k))


def f_get_entries(args):
    _arity(args, 1)
    m = _scalar(args[0], "context")
    return Bag([{"key": k, "value": v} for k, v in m.items()])


def f_not(args):
    _arity(args, 1)
    return Exact(not _scalar(args[0], "boolean"))


def f_number(args):
    _arity(args, 3)
    # a separator outside the allowed set makes the tuple foreign whatever `from` is
    unwrap = False
    for idx, allowed in ((1, (" ", ",", ".")), (2, (",", "."))):
        a = args[idx]
        if a is None:
            continue
        if kind(a) == "list" and len(a) == 1 and kind(a[0]) == "string":
            unwrap = True
            continue
        if kind(a) != "string" or a not in allowed:
            return NULL
    s = _scalar(args[0], "string")
    if unwrap:
        return Unspec(U_SINGLETON_UNWRAP)
    g, d = args[1], args[2]
    if g is not None and g == d:
        return NULL
    if d is not None:
        ip, sep, fp = s.partition(d)
    else:
        ip, sep, fp = s, "", ""
    if g is not None:
        if g in fp:
            return Unspec(U_NUMBER_SEP)
        body = ip[1:] if ip.startswith("-") else ip
        if g in body:
            # grouping: groups of three digits counted from the right of the integer part
            chunks = body.split(g)
            if not (1 <= len(chunks[0]) <= 3 and all(len(c) == 3 for c in chunks[1:])
                    and all(_pyre.fullmatch("[0-9]+", c) for c in chunks)):
                return Unspec(U_NUMBER_SEP)
        ip = ip.replace(g, "")
    if d == "," and "." in ip + fp:
        return Unspec(U_NUMBER_SEP)     # a period next to the decimal comma: foreign character or second mark?
    norm = ip + ("." + fp if sep else "")
    if d is None and ("." in norm or "," in norm):
        return Unspec(U_NUMBER_SEP)     # the table does not say which mark is read when no decimal separator is named
    if NUM_LITERAL.match(norm):
        if len(norm.replace("-", "").replace(".", "").lstrip("0")) > 34:
            return Unspec(U_NUMBER_FORM)
        return Exact(Decimal(norm))
    t = norm.strip()
    if _pyre.match(r"[+-]?([0-9]+\.?[0-9]*|\.[0-9]+)([eE][+-]?[0-9]+)?\Z", t) or t.lower().lstrip("+-") in (
            "inf", "infinity", "nan", "snan"):
        return Unspec(U_NUMBER_FORM)    # read by some decimal readers, but not a FEEL numeric literal (grammar rule 37)
    return NULL


def f_string(args):
    _arity(args, 1)
    v = args[0]
    k = kind(v)
    if k == "null":
        return NULL
    if k == "string":
        return Exact(v)
    if k == "boolean":
        return Exact("true" if v else "false")
    if k == "number":
        return NumText(v)
    return Unspec(U_STRING_OF_COMPOSITE)


FUNCS = {
    "substring": f_substring, "string length": f_string_length, "upper case": f_upper_case, "lower case": f_lower_case,
    "substring before": f_substring_before, "substring after": f_substring_after, "contains": f_contains,
    "starts with": f_starts_with, "ends with": f_ends_with, "matches": f_matches, "replace": f_replace, "split": f_split,
    "count": f_count, "min": f_min, "max": f_max, "sum": f_sum, "mean": f_mean, "median": f_median, "mode": f_mode,
    "stddev": f_stddev, "all": f_all, "any": f_any, "sublist": f_sublist, "append": f_append, "concatenate": f_concatenate,
    "insert before": f_insert_before, "remove": f_remove, "reverse": f_reverse, "index of": f_index_of, "union": f_union,
    "distinct values": f_distinct_values, "flatten": f_flatten, "sort": f_sort, "list contains": f_list_contains,
    "get value": f_get_value, "get entries": f_get_entries, "not": f_not, "number": f_number, "string": f_string,
}

# parameter names of table 72-76 (None: the table gives a variadic signature only, no named form)
PARAMS = {
    "substring": ["string", "start position", "length"], "string length": ["string"], "upper case": ["string"],
    "lower case": ["string"], "substring before": ["string", "match"], "substring after": ["string", "match"],
    "contains": ["string", "match"], "starts with": ["string", "match"], "ends with": ["string", "match"],
    "matches": ["input", "pattern", "flags"], "replace": ["input", "pattern", "replacement", "flags"],
    "split": ["string", "delimiter"], "count": ["list"], "min": ["list"], "max": ["list"], "sum": ["list"], "mean": ["list"],
    "median": ["list"], "mode": ["list"], "stddev": ["list"], "all": ["list"], "any": ["list"],
    "sublist": ["list", "start position", "length"], "append": None, "concatenate": None,
    "insert before": ["list", "position", "newItem"], "remove": ["list", "position"], "reverse": ["list"],
    "index of": ["list", "match"], "union": None, "distinct values": ["list"], "flatten": ["list"],
    "sort": ["list", "precedes"], "list contains": ["list", "element"], "get value": ["m", "key"], "get entries": ["m"],
    "not": ["negand"], "number": ["from", "grouping separator", "decimal separator"], "string": ["from"],
}
# (minimum, maximum) number of arguments; None = unbounded
ARITY = {
    "substring": (2, 3), "string length": (1, 1), "upper case": (1, 1), "lower case": (1, 1), "substring before": (2, 2),
    "substring after": (2, 2), "contains": (2, 2), "starts with": (2, 2), "ends with": (2, 2), "matches": (2, 3),
    "replace": (3, 4), "split": (2, 2), "count": (1, 1), "min": (1, None), "max": (1, None), "sum": (1, None),
    "mean": (1, None), "median": (1, None), "mode": (1, None), "stddev": (1, None), "all": (1, None), "any": (1, None),
    "sublist": (2, 3), "append": (2, None), "concatenate": (1, None), "insert before": (3, 3), "remove": (2, 2),
    "reverse": (1, 1), "index of": (2, 2), "union": (1, None), "distinct values": (1, 1), "flatten": (1, 1), "sort": (2, 2),
    "list contains": (2, 2), "get value": (2, 2), "get entries": (1, 1), "not": (1, 1), "number": (3, 3), "string": (1, 1),
}
AGGREGATES = ("min", "max", "sum", "mean", "median", "mode", "stddev", "all", "any")

REL = Fraction(1, 10 ** 30)


def call(name, args):
    try:
        return FUNCS[name](list(args))
    except _Out as o:
        return o.result


def approx_ok(var, r):
    """Is the number r the square root of the exact variance var, up to REL?"""
    if not isinstance(r, Decimal) or r < 0:
        return False
    if var == 0:
        return r == 0
    fr = Fraction(r)
    return abs(fr * fr - var) <= var * REL * 2


def trim(s):
    i, j = 0, len(s)
    while i < j and s[i] in WHITE_SPACE:
        i += 1
    while j > i and s[j - 1] in WHITE_SPACE:
        j -= 1
    return s[i:j]


# ------------------------------------------------------------------------------------------------------------
# self test: the matcher against Python's re on the common subset, and the spec's own examples
# ------------------------------------------------------------------------------------------------------------

def crosscheck_regex(pattern, flags, s):
    """None if both engines agree on (match?, span, groups) for the leftmost match; else a description."""
    try:
        prog = Prog(pattern, flags)
    except RegexError:
        return None
    try:
        py = _pyre.compile(to_python_re(prog.tree, flags), python_flags(flags))
    except (RegexError, _pyre.error) as e:
        return "python rejects %r: %s" % (pattern, e)
    mine = prog.search(s)
    theirs = py.search(s)
    if (mine is None) != (theirs is None):
        return "match? mine=%r python=%r for %r on %r flags %r" % (mine, theirs, pattern, s, flags)
    if mine is None:
        return None
    if (mine[0], mine[1]) != theirs.span():
        return "span mine=%r python=%r for %r on %r flags %r" % (mine[:2], theirs.span(), pattern, s, flags)
    for g in range(1, prog.groups + 1):
        a = mine[2][g]
        b = theirs.span(g) if theirs.span(g) != (-1, -1) else None
        if a != b:
            return "group %d mine=%r python=%r for %r on %r flags %r" % (g, a, b, pattern, s, flags)
    return None


SPEC_EXAMPLES = [
    ("substring", ["foobar", Decimal(3)], "obar"), ("substring", ["foobar", Decimal(3), Decimal(3)], "oba"),
    ("substring", ["foobar", Decimal(-2), Decimal(1)], "a"), ("substring", ["\U0001F40Eab", Decimal(2)], "ab"),
    ("string length", ["foo"], Decimal(3)), ("string length", ["\U0001F40Eab"], Decimal(3)),
    ("upper case", ["aBc4"], "ABC4"), ("lower case", ["aBc4"], "abc4"),
    ("substring before", ["foobar", "bar"], "foo"), ("substring before", ["foobar", "xyz"], ""),
    ("substring after", ["foobar", "ob"], "ar"), ("substring after", ["", "a"], ""),
    ("replace", ["abcd", "(ab)|(a)", "[1=$1][2=$2]"], "[1=ab][2=]cd"),
    ("contains", ["foobar", "of"], False), ("starts with", ["foobar", "fo"], True), ("ends with", ["foobar", "r"], True),
    ("matches", ["foobar", "^fo*b"], True),
    ("split", ["John Doe", "\\s"], ["John", "Doe"]), ("split", ["a;b;c;;", ";"], ["a", "b", "c", "", ""]),
    ("list contains", [[Decimal(1), Decimal(2), Decimal(3)], Decimal(2)], True),
    ("count", [[Decimal(1), Decimal(2), Decimal(3)]], Decimal(3)), ("count", [[]], Decimal(0)),
    ("count", [[Decimal(1), [Decimal(2), Decimal(3)]]], Decimal(2)),
    ("min", [[Decimal(1), Decimal(2), Decimal(3)]], Decimal(1)), ("min", [Decimal(1)], Decimal(1)), ("min", [[]], None),
    ("max", [Decimal(1), Decimal(2), Decimal(3)], Decimal(3)), ("max", [[]], None),
    ("sum", [[Decimal(1), Decimal(2), Decimal(3)]], Decimal(6)), ("sum", [Decimal(1)], Decimal(1)), ("sum", [[]], None),
    ("mean", [[Decimal(1), Decimal(2), Decimal(3)]], Decimal(2)), ("mean", [[]], None),
    ("all", [[False, None, True]], False), ("all", [True], True), ("all", [[True]], True), ("all", [[]], True),
    ("all", [Decimal(0)], None),
    ("any", [[False, None, True]], True), ("any", [False], False), ("any", [[]], False), ("any", [Decimal(0)], None),
    ("sublist", [[Decimal(4), Decimal(5), Decimal(6)], Decimal(1), Decimal(2)], [Decimal(4), Decimal(5)]),
    ("append", [[Decimal(1)], Decimal(2), Decimal(3)], [Decimal(1), Decimal(2), Decimal(3)]),
    ("concatenate", [[Decimal(1), Decimal(2)], [Decimal(3)]], [Decimal(1), Decimal(2), Decimal(3)]),
    ("insert before", [[Decimal(1), Decimal(3)], Decimal(1), Decimal(2)], [Decimal(2), Decimal(1), Decimal(3)]),
    ("remove", [[Decimal(1), Decimal(2), Decimal(3)], Decimal(2)], [Decimal(1), Decimal(3)]),
    ("reverse", [[Decimal(1), Decimal(2), Decimal(3)]], [Decimal(3), Decimal(2), Decimal(1)]),
    ("index of", [[Decimal(1), Decimal(2), Decimal(3), Decimal(2)], Decimal(2)], [Decimal(2), Decimal(4)]),
    ("union", [[Decimal(1), Decimal(2)], [Decimal(2), Decimal(3)]], [Decimal(1), Decimal(2), Decimal(3)]),
    ("distinct values", [[Decimal(1), Decimal(2), Decimal(3), Decimal(2), Decimal(1)]], [Decimal(1), Decimal(2), Decimal(3)]),
    ("flatten", [[[Decimal(1), Decimal(2)], [[Decimal(3)]], Decimal(4)]], [Decimal(1), Decimal(2), Decimal(3), Decimal(4)]),
    ("median", [Decimal(8), Decimal(2), Decimal(5), Decimal(3), Decimal(4)], Decimal(4)),
    ("median", [[Decimal(6), Decimal(1), Decimal(2), Decimal(3)]], Decimal("2.5")), ("median", [[]], None),
    ("mode", [Decimal(6), Decimal(3), Decimal(9), Decimal(6), Decimal(6)], [Decimal(6)]),
    ("mode", [[Decimal(6), Decimal(1), Decimal(9), Decimal(6), Decimal(1)]], [Decimal(1), Decimal(6)]), ("mode", [[]], []),
    ("not", [True], False), ("not", [None], None),
    ("number", ["1 000,0", " ", ","], Decimal("1000.0")), ("number", ["1,000.0", ",", "."], Decimal("1000.0")),
    ("get value", [{"key1": Decimal(1)}, "key1"], Decimal(1)), ("get value", [{"key1": Decimal(1)}, "x"], None),
    ("string", [None], None),
]


def selftest(n=4000, seed=1):
    import random
    bad = []
    for name, args, want in SPEC_EXAMPLES:
        r = call(name, args)
        if not isinstance(r, Exact) or not identical(r.v, want):
            bad.append("spec example %s%r: %r" % (name, args, getattr(r, "v", getattr(r, "reason", r))))
    r = call("stddev", [[Decimal(2), Decimal(4), Decimal(7), Decimal(5)]])
    if not approx_ok(r.var, Decimal("2.081665999466132735282297706979931")):
        bad.append("stddev example")
    r = call("sort", [[Decimal(3), Decimal(1), Decimal(4), Decimal(5), Decimal(2)], Lambda("<")])
    if r.v != [Decimal(i) for i in range(1, 6)]:
        bad.append("sort example")
    rnd = random.Random(seed)
    atoms = ["a", "b", "c", ".", "[ab]", "[^a]", "\\d", "\\s", "(a)", "(a|b)", "(?:ab)", "A", "é", "[a-c]", "\\."]
    quants = ["", "", "", "*", "+", "?", "*?", "+?", "{2}", "{1,2}"]
    for _ in range(n):
        k = rnd.randint(1, 4)
        pat = "".join(rnd.choice(atoms) + rnd.choice(quants) for _ in range(k))
        if rnd.random() < 0.3:
            pat = pat + "|" + rnd.choice(atoms)
        if rnd.random() < 0.2:
            pat = "^" + pat
        if rnd.random() < 0.2:
            pat = pat + "$"
        flags = "".join(c for c in "smi" if rnd.random() < 0.2)
        s = "".join(rnd.choice("abcAB01 \n.é\U0001F600") for _ in range(rnd.randint(0, 6)))
        d = crosscheck_regex(pat, flags, s)
        if d:
            bad.append(d)
    return bad


if __name__ == "__main__":
    import sys
    problems = selftest()
    for p in problems[:20]:
        print(p)
    print("selftest: %d problems" % len(problems))
    sys.exit(1 if problems else 0)
