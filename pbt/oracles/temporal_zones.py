"""Zone identifiers and zone-rule oracle for C14/C15 (imports nothing from the SUT).

TZDB_2022A: the 594 identifiers of IANA tzdb release 2022a, the release bundled with chrono-tz 0.6.3 (the version pinned
in /repo's Cargo.lock). The running Python has the system tzdata (2025b, 599 identifiers). "Known to the zone database"
is asserted only for identifiers known to BOTH releases; zone *rules* are compared only for CURATED zones, for instants
1980-01-01..2020-01-01 that are at least 4 h away from any offset change according to zoneinfo."""
import zoneinfo
from datetime import datetime, timezone

TZDB_2022A = """
Africa/Abidjan Africa/Accra Africa/Addis_Ababa Africa/Algiers Africa/Asmara Africa/Asmera Africa/Bamako
Africa/Bangui Africa/Banjul Africa/Bissau Africa/Blantyre Africa/Brazzaville Africa/Bujumbura Africa/Cairo
Africa/Casablanca Africa/Ceuta Africa/Conakry Africa/Dakar Africa/Dar_es_Salaam Africa/Djibouti Africa/Douala
Africa/El_Aaiun Africa/Freetown Africa/Gaborone Africa/Harare Africa/Johannesburg Africa/Juba Africa/Kampala
Africa/Khartoum Africa/Kigali Africa/Kinshasa Africa/Lagos Africa/Libreville Africa/Lome Africa/Luanda
Africa/Lubumbashi Africa/Lusaka Africa/Malabo Africa/Maputo Africa/Maseru Africa/Mbabane Africa/Mogadishu
Africa/Monrovia Africa/Nairobi Africa/Ndjamena Africa/Niamey Africa/Nouakchott Africa/Ouagadougou
Africa/Porto-Novo Africa/Sao_Tome Africa/Timbuktu Africa/Tripoli Africa/Tunis Africa/Windhoek America/Adak
America/Anchorage America/Anguilla America/Antigua America/Araguaina America/Argentina/Buenos_Aires
America/Argentina/Catamarca America/Argentina/ComodRivadavia America/Argentina/Cordoba
America/Argentina/Jujuy America/Argentina/La_Rioja America/Argentina/Mendoza America/Argentina/Rio_Gallegos
America/Argentina/Salta America/Argentina/San_Juan America/Argentina/San_Luis America/Argentina/Tucuman
America/Argentina/Ushuaia America/Aruba America/Asuncion America/Atikokan America/Atka America/Bahia
America/Bahia_Banderas America/Barbados America/Belem America/Belize America/Blanc-Sablon America/Boa_Vista
America/Bogota America/Boise America/Buenos_Aires America/Cambridge_Bay America/Campo_Grande America/Cancun
America/Caracas America/Catamarca America/Cayenne America/Cayman America/Chicago America/Chihuahua
America/Coral_Harbour America/Cordoba America/Costa_Rica America/Creston America/Cuiaba America/Curacao
America/Danmarkshavn America/Dawson America/Dawson_Creek America/Denver America/Detroit America/Dominica
America/Edmonton America/Eirunepe America/El_Salvador America/Ensenada America/Fort_Nelson America/Fort_Wayne
America/Fortaleza America/Glace_Bay America/Godthab America/Goose_Bay America/Grand_Turk America/Grenada
America/Guadeloupe America/Guatemala America/Guayaquil America/Guyana America/Halifax America/Havana
America/Hermosillo America/Indiana/Indianapolis America/Indiana/Knox America/Indiana/Marengo
America/Indiana/Petersburg America/Indiana/Tell_City America/Indiana/Vevay America/Indiana/Vincennes
America/Indiana/Winamac America/Indianapolis America/Inuvik America/Iqaluit America/Jamaica America/Jujuy
America/Juneau America/Kentucky/Louisville America/Kentucky/Monticello America/Knox_IN America/Kralendijk
America/La_Paz America/Lima America/Los_Angeles America/Louisville America/Lower_Princes America/Maceio
America/Managua America/Manaus America/Marigot America/Martinique America/Matamoros America/Mazatlan
America/Mendoza America/Menominee America/Merida America/Metlakatla America/Mexico_City America/Miquelon
America/Moncton America/Monterrey America/Montevideo America/Montreal America/Montserrat America/Nassau
America/New_York America/Nipigon America/Nome America/Noronha America/North_Dakota/Beulah
America/North_Dakota/Center America/North_Dakota/New_Salem America/Nuuk America/Ojinaga America/Panama
America/Pangnirtung America/Paramaribo America/Phoenix America/Port-au-Prince America/Port_of_Spain
America/Porto_Acre America/Porto_Velho America/Puerto_Rico America/Punta_Arenas America/Rainy_River
America/Rankin_Inlet America/Recife America/Regina America/Resolute America/Rio_Branco America/Rosario
America/Santa_Isabel America/Santarem America/Santiago America/Santo_Domingo America/Sao_Paulo
America/Scoresbysund America/Shiprock America/Sitka America/St_Barthelemy America/St_Johns America/St_Kitts
America/St_Lucia America/St_Thomas America/St_Vincent America/Swift_Current America/Tegucigalpa America/Thule
America/Thunder_Bay America/Tijuana America/Toronto America/Tortola America/Vancouver America/Virgin
America/Whitehorse America/Winnipeg America/Yakutat America/Yellowknife Antarctica/Casey Antarctica/Davis
Antarctica/DumontDUrville Antarctica/Macquarie Antarctica/Mawson Antarctica/McMurdo Antarctica/Palmer
Antarctica/Rothera Antarctica/South_Pole Antarctica/Syowa Antarctica/Troll Antarctica/Vostok
Arctic/Longyearbyen Asia/Aden Asia/Almaty Asia/Amman Asia/Anadyr Asia/Aqtau Asia/Aqtobe Asia/Ashgabat
Asia/Ashkhabad Asia/Atyrau Asia/Baghdad Asia/Bahrain Asia/Baku Asia/Bangkok Asia/Barnaul Asia/Beirut
Asia/Bishkek Asia/Brunei Asia/Calcutta Asia/Chita Asia/Choibalsan Asia/Chongqing Asia/Chungking Asia/Colombo
Asia/Dacca Asia/Damascus Asia/Dhaka Asia/Dili Asia/Dubai Asia/Dushanbe Asia/Famagusta Asia/Gaza Asia/Harbin
Asia/Hebron Asia/Ho_Chi_Minh Asia/Hong_Kong Asia/Hovd Asia/Irkutsk Asia/Istanbul Asia/Jakarta Asia/Jayapura
Asia/Jerusalem Asia/Kabul Asia/Kamchatka Asia/Karachi Asia/Kashgar Asia/Kathmandu Asia/Katmandu Asia/Khandyga
Asia/Kolkata Asia/Krasnoyarsk Asia/Kuala_Lumpur Asia/Kuching Asia/Kuwait Asia/Macao Asia/Macau Asia/Magadan
Asia/Makassar Asia/Manila Asia/Muscat Asia/Nicosia Asia/Novokuznetsk Asia/Novosibirsk Asia/Omsk Asia/Oral
Asia/Phnom_Penh Asia/Pontianak Asia/Pyongyang Asia/Qatar Asia/Qostanay Asia/Qyzylorda Asia/Rangoon
Asia/Riyadh Asia/Saigon Asia/Sakhalin Asia/Samarkand Asia/Seoul Asia/Shanghai Asia/Singapore
Asia/Srednekolymsk Asia/Taipei Asia/Tashkent Asia/Tbilisi Asia/Tehran Asia/Tel_Aviv Asia/Thimbu Asia/Thimphu
Asia/Tokyo Asia/Tomsk Asia/Ujung_Pandang Asia/Ulaanbaatar Asia/Ulan_Bator Asia/Urumqi Asia/Ust-Nera
Asia/Vientiane Asia/Vladivostok Asia/Yakutsk Asia/Yangon Asia/Yekaterinburg Asia/Yerevan Atlantic/Azores
Atlantic/Bermuda Atlantic/Canary Atlantic/Cape_Verde Atlantic/Faeroe Atlantic/Faroe Atlantic/Jan_Mayen
Atlantic/Madeira Atlantic/Reykjavik Atlantic/South_Georgia Atlantic/St_Helena Atlantic/Stanley Australia/ACT
Australia/Adelaide Australia/Brisbane Australia/Broken_Hill Australia/Canberra Australia/Currie
Australia/Darwin Australia/Eucla Australia/Hobart Australia/LHI Australia/Lindeman Australia/Lord_Howe
Australia/Melbourne Australia/NSW Australia/North Australia/Perth Australia/Queensland Australia/South
Australia/Sydney Australia/Tasmania Australia/Victoria Australia/West Australia/Yancowinna Brazil/Acre
Brazil/DeNoronha Brazil/East Brazil/West CET CST6CDT Canada/Atlantic Canada/Central Canada/Eastern
Canada/Mountain Canada/Newfoundland Canada/Pacific Canada/Saskatchewan Canada/Yukon Chile/Continental
Chile/EasterIsland Cuba EET EST EST5EDT Egypt Eire Etc/GMT Etc/GMT+0 Etc/GMT+1 Etc/GMT+10 Etc/GMT+11
Etc/GMT+12 Etc/GMT+2 Etc/GMT+3 Etc/GMT+4 Etc/GMT+5 Etc/GMT+6 Etc/GMT+7 Etc/GMT+8 Etc/GMT+9 Etc/GMT-0
Etc/GMT-1 Etc/GMT-10 Etc/GMT-11 Etc/GMT-12 Etc/GMT-13 Etc/GMT-14 Etc/GMT-2 Etc/GMT-3 Etc/GMT-4 Etc/GMT-5
Etc/GMT-6 Etc/GMT-7 Etc/GMT-8 Etc/GMT-9 Etc/GMT0 Etc/Greenwich Etc/UCT Etc/UTC Etc/Universal Etc/Zulu
Europe/Amsterdam Europe/Andorra Europe/Astrakhan Europe/Athens Europe/Belfast Europe/Belgrade Europe/Berlin
Europe/Bratislava Europe/Brussels Europe/Bucharest Europe/Budapest Europe/Busingen Europe/Chisinau
Europe/Copenhagen Europe/Dublin Europe/Gibraltar Europe/Guernsey Europe/Helsinki Europe/Isle_of_Man
Europe/Istanbul Europe/Jersey Europe/Kaliningrad Europe/Kiev Europe/Kirov Europe/Lisbon Europe/Ljubljana
Europe/London Europe/Luxembourg Europe/Madrid Europe/Malta Europe/Mariehamn Europe/Minsk Europe/Monaco
Europe/Moscow Europe/Nicosia Europe/Oslo Europe/Paris Europe/Podgorica Europe/Prague Europe/Riga Europe/Rome
Europe/Samara Europe/San_Marino Europe/Sarajevo Europe/Saratov Europe/Simferopol Europe/Skopje Europe/Sofia
Europe/Stockholm Europe/Tallinn Europe/Tirane Europe/Tiraspol Europe/Ulyanovsk Europe/Uzhgorod Europe/Vaduz
Europe/Vatican Europe/Vienna Europe/Vilnius Europe/Volgograd Europe/Warsaw Europe/Zagreb Europe/Zaporozhye
Europe/Zurich GB GB-Eire GMT GMT+0 GMT-0 GMT0 Greenwich HST Hongkong Iceland Indian/Antananarivo
Indian/Chagos Indian/Christmas Indian/Cocos Indian/Comoro Indian/Kerguelen Indian/Mahe Indian/Maldives
Indian/Mauritius Indian/Mayotte Indian/Reunion Iran Israel Jamaica Japan Kwajalein Libya MET MST MST7MDT
Mexico/BajaNorte Mexico/BajaSur Mexico/General NZ NZ-CHAT Navajo PRC PST8PDT Pacific/Apia Pacific/Auckland
Pacific/Bougainville Pacific/Chatham Pacific/Chuuk Pacific/Easter Pacific/Efate Pacific/Enderbury
Pacific/Fakaofo Pacific/Fiji Pacific/Funafuti Pacific/Galapagos Pacific/Gambier Pacific/Guadalcanal
Pacific/Guam Pacific/Honolulu Pacific/Johnston Pacific/Kanton Pacific/Kiritimati Pacific/Kosrae
Pacific/Kwajalein Pacific/Majuro Pacific/Marquesas Pacific/Midway Pacific/Nauru Pacific/Niue Pacific/Norfolk
Pacific/Noumea Pacific/Pago_Pago Pacific/Palau Pacific/Pitcairn Pacific/Pohnpei Pacific/Ponape
Pacific/Port_Moresby Pacific/Rarotonga Pacific/Saipan Pacific/Samoa Pacific/Tahiti Pacific/Tarawa
Pacific/Tongatapu Pacific/Truk Pacific/Wake Pacific/Wallis Pacific/Yap Poland Portugal ROC ROK Singapore
Turkey UCT US/Alaska US/Aleutian US/Arizona US/Central US/East-Indiana US/Eastern US/Hawaii US/Indiana-Starke
US/Michigan US/Mountain US/Pacific US/Samoa UTC Universal W-SU WET Zulu
""".split()

# Zones whose 1980-2020 rules are the same in tzdb 2022a and 2025b; includes half-hour / 45-minute offsets, southern-
# hemisphere DST and a 30-minute DST (Lord_Howe). Triage (findings/C15.md): a sweep of all 549 identifiers the SUT can read,
# every 53 h over 1980-2020, showed disagreement only for 13 zones whose history was revised or merged after 2022a
# (America/Bogota, America/Cancun, America/Merida, America/Pangnirtung, Antarctica/Vostok, Asia/Choibalsan, Asia/Manila,
# Atlantic/Azores, Atlantic/Madeira, Europe/Lisbon, Portugal, Europe/Uzhgorod, Europe/Zaporozhye): none of them is listed.
CURATED = [
    "Europe/Warsaw", "Europe/London", "Europe/Paris", "Europe/Berlin", "Europe/Madrid", "Europe/Rome", "Europe/Moscow",
    "Europe/Athens", "Europe/Helsinki", "Europe/Dublin", "Atlantic/Reykjavik",
    "America/New_York", "America/Chicago", "America/Denver", "America/Los_Angeles", "America/Anchorage",
    "America/Toronto", "America/Vancouver", "America/Halifax", "America/St_Johns", "America/Phoenix",
    "America/Sao_Paulo", "America/Mexico_City", "America/Lima", "America/Caracas", "Pacific/Honolulu",
    "Asia/Tokyo", "Asia/Shanghai", "Asia/Kolkata", "Asia/Kathmandu", "Asia/Dubai", "Asia/Tehran", "Asia/Jerusalem",
    "Asia/Singapore", "Asia/Hong_Kong", "Asia/Seoul", "Asia/Karachi", "Asia/Bangkok", "Asia/Dhaka",
    "Australia/Sydney", "Australia/Adelaide", "Australia/Perth", "Australia/Lord_Howe", "Australia/Darwin",
    "Pacific/Auckland", "Pacific/Chatham", "Africa/Johannesburg", "Africa/Lagos", "Africa/Nairobi", "Africa/Cairo",
    "Etc/UTC", "UTC",
]

T_1980 = 315532800
T_2020 = 1577836800

_cache = {}


def system_zones():
    if "system" not in _cache:
        _cache["system"] = frozenset(zoneinfo.available_timezones())
    return _cache["system"]


def both():
    """Identifiers known to tzdb 2022a (chrono-tz 0.6.3) and to the system tzdata, sorted."""
    if "both" not in _cache:
        _cache["both"] = sorted(set(TZDB_2022A) & system_zones())
    return _cache["both"]


def known_to_any(name):
    if "any" not in _cache:
        _cache["any"] = frozenset(TZDB_2022A) | system_zones()
        _cache["anylow"] = frozenset(z.lower() for z in _cache["any"])
    return name in _cache["any"]


def known_case_insensitively(name):
    known_to_any(name)
    return name.lower() in _cache["anylow"]


_zi_cache = {}


def _zi(name):
    z = _zi_cache.get(name)
    if z is None:
        z = _zi_cache[name] = zoneinfo.ZoneInfo(name)
    return z


def offset_at(name, epoch_seconds):
    """UTC offset in whole seconds of zone `name` at the instant `epoch_seconds` (integer arithmetic only)."""
    off = datetime.fromtimestamp(epoch_seconds, tz=timezone.utc).astimezone(_zi(name)).utcoffset()
    return off.days * 86400 + off.seconds


def stable_around(name, epoch_seconds, hours=4):
    """True when the offset is the same `hours` before and after the instant (no transition nearby)."""
    o = offset_at(name, epoch_seconds)
    return o == offset_at(name, epoch_seconds - hours * 3600) == offset_at(name, epoch_seconds + hours * 3600)


def stable_instant(name, epoch_seconds, hours=4):
    """The instant itself, or the first later instant in steps of 5 days that is `hours` away from any transition."""
    t = epoch_seconds
    for _ in range(40):
        if stable_around(name, t, hours):
            return t
        t += 5 * 86400
    raise AssertionError("no stable instant for %s near %d" % (name, epoch_seconds))


def offset_for_local(name, local_epoch_seconds):
    """UTC offset of zone `name` for the local wall-clock time given as 'seconds since 1970 if the fields were UTC'.
    None when the local time does not exist, is ambiguous, or is within 4 h of an offset change."""
    found = set()
    for probe in (-86400, 0, 86400):
        o = offset_at(name, local_epoch_seconds + probe)
        t = local_epoch_seconds - o
        if offset_at(name, t) == o:
            found.add(o)
    if len(found) != 1:
        return None
    o = found.pop()
    if name in NEAR_ZONES_SET and T_2008 <= local_epoch_seconds - o < T_2019_06:
        # zones whose 2008-2019 rules are the same in both tz databases: any local time that exists exactly once is decided,
        # however close to a switch it is (probed with +-2 h as well, so the repeated hour is seen as ambiguous)
        cands = set()
        for probe in (-7200, -3600, 0, 3600, 7200):
            o2 = offset_at(name, local_epoch_seconds - o + probe)
            if offset_at(name, local_epoch_seconds - o2) == o2:
                cands.add(o2)
        return o if cands == {o} else None
    return o if stable_around(name, local_epoch_seconds - o) else None


# ------------------------------------------------------------------------------------------------
# instants CLOSE to a daylight-saving switch (minutes to a few hours), for zones whose rules of 2008-2019 are identical in
# tzdb 2022a (chrono-tz 0.6.3) and in the system's tz database; local times that are ambiguous (the repeated hour) are left out
# ------------------------------------------------------------------------------------------------
NEAR_ZONES = ["Europe/Warsaw", "Europe/London", "Europe/Berlin", "America/New_York", "America/Los_Angeles", "Australia/Sydney"]
NEAR_ZONES_SET = set(NEAR_ZONES)
T_2008 = int(datetime(2008, 1, 1, tzinfo=timezone.utc).timestamp())
T_2019_06 = int(datetime(2019, 6, 1, tzinfo=timezone.utc).timestamp())
_switches = {}


def switches(name):
    """UTC instants (epoch seconds) of the offset changes of `name` between 2008 and 2019, found by bisection on offset_at"""
    sw = _switches.get(name)
    if sw is None:
        sw = []
        t = int(datetime(2008, 1, 1, tzinfo=timezone.utc).timestamp())
        end = int(datetime(2019, 6, 1, tzinfo=timezone.utc).timestamp())
        step = 20 * 86400
        while t < end:
            if offset_at(name, t) != offset_at(name, t + step):
                lo, hi = t, t + step
                while hi - lo > 1:
                    mid = (lo + hi) // 2
                    if offset_at(name, mid) == offset_at(name, lo):
                        lo = mid
                    else:
                        hi = mid
                sw.append(hi)
            t += step
        _switches[name] = sw
    return sw


def unambiguous_local(name, epoch_seconds):
    """True when the local wall-clock time of this instant denotes exactly this instant (not inside a repeated hour)"""
    o = offset_at(name, epoch_seconds)
    local = epoch_seconds + o
    found = set()
    for probe in (-7200, 0, 7200):
        o2 = offset_at(name, epoch_seconds + probe)
        t2 = local - o2
        if offset_at(name, t2) == o2:
            found.add(t2)
    return found == {epoch_seconds}


def near_switch_instant(src, name):
    """an instant within 3 h of a switch of `name` whose local time is unambiguous"""
    sw = switches(name)
    for _ in range(20):
        t = src.choice(sw) + src.choice([1, -1]) * src.weighted([(3, src.int(0, 59) * 60), (3, src.int(60, 180) * 60), (1, src.int(0, 10800))])
        if unambiguous_local(name, t):
            return t
    return stable_instant(name, sw[0] + 30 * 86400)
