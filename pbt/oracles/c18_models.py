"""C18 models: the echo model (results are exactly what the request put in) and the workspace alphabet (shared with C17).

Echo model `echo` (namespace https://verif.example/c18/echo):
    Echo(v)      business knowledge model, untyped parameter and result: returns v unchanged (any value kind)
    Wrap(v)      business knowledge model: {value: v, twice: [v, v]}  (a context and a list built by decision logic)
    Greeting     decision over the typed input data `s: string`: "Hello " + s   (the README's example shape)
Input data must be typed in this code base (an untyped inputData does not build), hence the untyped echoes are
knowledge models, which /evaluate and /tck/evaluate invoke directly with the named parameters.
"""
from . import workspace_models as WM

ECHO_NS = "https://verif.example/c18/echo"
ECHO_NAME = "echo"

ECHO_XML = '''<?xml version="1.0" encoding="UTF-8"?>
<definitions namespace="%s" name="%s" id="_echo" xmlns="https://www.omg.org/spec/DMN/20191111/MODEL/">
  <inputData name="s" id="_s"><variable name="s" typeRef="string"/></inputData>
  <businessKnowledgeModel name="Echo" id="_b_echo"><variable name="Echo"/>
    <encapsulatedLogic><formalParameter name="v"/><literalExpression><text>v</text></literalExpression></encapsulatedLogic>
  </businessKnowledgeModel>
  <businessKnowledgeModel name="Wrap" id="_b_wrap"><variable name="Wrap"/>
    <encapsulatedLogic><formalParameter name="v"/><literalExpression><text>{value: v, twice: [v, v]}</text></literalExpression></encapsulatedLogic>
  </businessKnowledgeModel>
  <decision name="Greeting" id="_d_greet"><variable name="Greeting" typeRef="string"/>
    <informationRequirement><requiredInput href="#_s"/></informationRequirement>
    <literalExpression><text>"Hello " + s</text></literalExpression>
  </decision>
</definitions>
''' % (ECHO_NS, ECHO_NAME)

ECHO_INVOCABLES = ["Echo", "Wrap", "Greeting"]

# workspace alphabet (C17's): tags A B C A2 D E
TAGS = WM.TAGS
MODELS = WM.MODELS
XML = WM.XML
INVOCABLE = WM.INVOCABLE
REMOVE_KEYS = WM.REMOVE_KEYS
# names that decorate a stored model's name the way a file name, a path or a form field would (extension, slash, case, padding): other
# names, which nobody has - through every endpoint
DECORATED_NAMES = ["a.dmn", "c.dmn", "a/", "A", " a"]
EVAL_NAMES = WM.EVAL_NAMES + DECORATED_NAMES
