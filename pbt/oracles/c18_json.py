"""C18 oracles that need no SUT: a strict JSON reader, the response envelope, comparison of a decoded `data` member with an
evaluated value (driver encoding), the *deviation* renderer that predicts what the unescaped string formatting of the
pinned tree produces (used only to give a failure its narrow signature), and the TCK typed-value codec."""
import json
from decimal import Decimal, InvalidOperation


class NotJson(Exception):
    pass


def _pairs(pairs):
    d = {}
    for k, v in pairs:
        if k in d:
            raise NotJson("duplicate object key %r" % (k,))
        d[k] = v
    return d


def _const(name):
    raise NotJson("non-JSON constant %s" % name)


def _num(text):
    try:
        return Decimal(text)
    except InvalidOperation:
        raise NotJson("number %r" % text)


def strict_loads(body):
    """bytes -> document. Rejects: non-UTF-8, duplicate keys, NaN/Infinity, trailing data, raw control characters in
    strings, anything outside the RFC 8259 grammar. Numbers become Decimal of their exact text."""
    if isinstance(body, bytes):
        try:
            text = body.decode("utf-8")
        except UnicodeDecodeError as e:
            raise NotJson("body is not UTF-8: %s" % e)
    else:
        text = body
    if text.startswith("\ufeff"):
        raise NotJson("byte order mark")
    try:
        return json.loads(text, object_pairs_hook=_pairs, parse_constant=_const, parse_float=_num, parse_int=_num)
    except NotJson:
        raise
    except (ValueError, RecursionError) as e:
        raise NotJson(str(e)[:200])


def envelope(doc):
    """-> ("data", value) | ("errors", [details...]); raises NotJson when the document is not a result envelope."""
    if not isinstance(doc, dict):
        raise NotJson("top level is %s, not an object" % type(doc).__name__)
    has_d, has_e = "data" in doc, "errors" in doc
    if has_d == has_e:
        raise NotJson("envelope has %s" % ("both data and errors" if has_d else "neither data nor errors"))
    extra = set(doc) - {"data", "errors"}
    if extra:
        raise NotJson("unexpected envelope members %s" % sorted(extra))
    if has_d:
        return "data", doc["data"]
    errs = doc["errors"]
    if not isinstance(errs, list) or not errs:
        raise NotJson("errors is not a non-empty list")
    out = []
    for e in errs:
        if not isinstance(e, dict) or not isinstance(e.get("details"), str):
            raise NotJson("error entry without string details: %r" % (e,))
        out.append(e["details"])
    return "errors", out


# ---- evaluated value (driver encoding) vs decoded JSON ---------------------------------------------------------------

TEMPORAL_KEYS = ("date", "time", "dt", "dtd", "ymd")


def kind(v):
    if v is None:
        return "null"
    if isinstance(v, bool):
        return "boolean"
    if isinstance(v, dict):
        for k in ("N", "n", "s", "l", "c", "r", "f"):
            if k in v:
                return {"N": "null", "n": "number", "s": "string", "l": "list", "c": "context", "r": "range", "f": "function"}[k]
        for k in TEMPORAL_KEYS:
            if k in v:
                return "temporal"
    return "other"


def walk(v):
    yield v
    if isinstance(v, dict):
        if "l" in v:
            for x in v["l"]:
                for y in walk(x):
                    yield y
        elif "c" in v:
            for k, x in v["c"]:
                for y in walk(x):
                    yield y


def has_unlisted_kind(v):
    """a kind the statement does not list for /evaluate results (temporal, range, function, ...)"""
    return any(kind(x) in ("temporal", "range", "function", "other") for x in walk(v))


def needs_escape(s):
    return any(ch == '"' or ch == "\\" or ord(ch) < 0x20 for ch in s)


def strings_of(v):
    for x in walk(v):
        if isinstance(x, dict) and "s" in x:
            yield x["s"]
        if isinstance(x, dict) and "c" in x:
            for k, _ in x["c"]:
                yield k


def has_string_needing_escape(v):
    return any(needs_escape(s) for s in strings_of(v))


def mismatch(decoded, expected, path="data"):
    """None when the decoded JSON value denotes the evaluated value, else a short description of the first difference."""
    k = kind(expected)
    if k == "null":
        return None if decoded is None else "%s: expected null, got %r" % (path, decoded)
    if k == "boolean":
        return None if decoded is expected else "%s: expected %r, got %r" % (path, expected, decoded)
    if k == "number":
        if isinstance(decoded, Decimal) and not isinstance(decoded, bool):
            want = Decimal(expected["n"])
            return None if decoded == want else "%s: expected number %s, got %s" % (path, want, decoded)
        return "%s: expected number %s, got %r" % (path, expected["n"], decoded)
    if k == "string":
        if isinstance(decoded, str):
            return None if decoded == expected["s"] else "%s: expected string %r, got %r" % (path, expected["s"], decoded)
        return "%s: expected string %r, got %r" % (path, expected["s"], decoded)
    if k == "list":
        if not isinstance(decoded, list):
            return "%s: expected a list, got %r" % (path, decoded)
        if len(decoded) != len(expected["l"]):
            return "%s: expected %d items, got %d" % (path, len(expected["l"]), len(decoded))
        for i, (d, e) in enumerate(zip(decoded, expected["l"])):
            m = mismatch(d, e, "%s[%d]" % (path, i))
            if m:
                return m
        return None
    if k == "context":
        if not isinstance(decoded, dict):
            return "%s: expected a context, got %r" % (path, decoded)
        want = {}
        for key, val in expected["c"]:
            want[key] = val
        if set(decoded) != set(want):
            return "%s: expected keys %r, got %r" % (path, sorted(want), sorted(decoded))
        for key in want:
            m = mismatch(decoded[key], want[key], "%s.%r" % (path, key))
            if m:
                return m
        return None
    return None  # kinds the statement does not list: any well-formed JSON value is accepted


def deviation_render(v):
    """What `jsonify` of the pinned tree prints for an evaluated value (strings and keys between quotes without any
    escaping, unlisted kinds as `jsonify not implemented for: <text>`); None when this model cannot predict it."""
    k = kind(v)
    if k == "null":
        return "null"
    if k == "boolean":
        return "true" if v else "false"
    if k == "number":
        return v["n"]
    if k == "string":
        return '"' + v["s"] + '"'
    if k == "list":
        items = [deviation_render(x) for x in v["l"]]
        return None if any(i is None for i in items) else "[" + ", ".join(items) + "]"
    if k == "context":
        out = []
        for key, val in v["c"]:
            r = deviation_render(val)
            if r is None:
                return None
            out.append('"%s": %s' % (key, r))
        return "{" + ", ".join(out) + "}"
    if k == "temporal":
        for tk in TEMPORAL_KEYS:
            if tk in v:
                return "jsonify not implemented for: " + v[tk]
    if k == "range":
        lo, lc, hi, hc = v["r"]
        a, b = display(lo), display(hi)
        if a is None or b is None:
            return None
        return "jsonify not implemented for: %s%s..%s%s" % ("[" if lc else "(", a, b, "]" if hc else ")")
    return None


def display(v):
    k = kind(v)
    if k == "number":
        return v["n"]
    if k == "string":
        return '"' + v["s"] + '"'
    if k == "temporal":
        for tk in TEMPORAL_KEYS:
            if tk in v:
                return v[tk]
    if k == "null":
        return "null"
    if k == "boolean":
        return "true" if v else "false"
    return None


# ---- TCK typed values -------------------------------------------------------------------------------------------------
# abstract: ["nil"] | ["nill"] (nil list) | ["nilt"] (nil simple value with a type) | ["simple", type, text] | ["list", [v...]] | ["ctx", [[name, v]...]] | ["nilc"] (a component sent with isNil=true)

NUMERIC_TYPES = ("xsd:decimal", "xsd:integer", "xsd:double")


def to_dto(v):
    t = v[0]
    if t == "nil":
        return {"simple": {"isNil": True}}
    if t == "nill":
        return {"list": {"items": [], "isNil": True}}
    if t == "nilt":
        return {"simple": {"type": "xsd:string", "isNil": True}}
    if t == "simple":
        return {"simple": {"type": v[1], "text": v[2], "isNil": False}}
    if t == "list":
        return {"list": {"items": [to_dto(x) for x in v[1]], "isNil": False}}
    if t == "ctx":
        comps = []
        for name, x in v[1]:
            if x[0] == "nilc":
                comps.append({"name": name, "isNil": True})
            else:
                comps.append({"name": name, "value": to_dto(x), "isNil": False})
        return {"components": comps}
    raise ValueError(v)


def norm_sent(v):
    """the value a sent typed value denotes: ("null",) | ("string", s) | ("number", Decimal) | ("boolean", b) |
    (temporal-type, text) | ("list", [...]) | ("context", {name: v})"""
    t = v[0]
    if t in ("nil", "nilc", "nill", "nilt"):
        return ("null",)
    if t == "simple":
        return norm_simple(v[1], v[2])
    if t == "list":
        return ("list", [norm_sent(x) for x in v[1]])
    if t == "ctx":
        return ("context", {name: norm_sent(x) for name, x in v[1]})
    raise ValueError(v)


def norm_simple(typ, text):
    if typ == "xsd:string":
        return ("string", text)
    if typ in NUMERIC_TYPES:
        return ("number", Decimal(text))
    if typ == "xsd:boolean":
        return ("boolean", text in ("true", "1"))
    return (typ, text)


class BadDto(Exception):
    pass


def norm_received(d, path="value"):
    """decode a ValueDto of a response into the same normal form; raises BadDto when it is not a ValueDto"""
    if not isinstance(d, dict):
        raise BadDto("%s is not an object: %r" % (path, d))
    present = [k for k in ("simple", "components", "list") if d.get(k) is not None]
    if len(present) != 1:
        raise BadDto("%s has %s of simple/components/list" % (path, present or "none"))
    if present[0] == "simple":
        s = d["simple"]
        if not isinstance(s, dict) or not isinstance(s.get("isNil"), bool):
            raise BadDto("%s.simple without boolean isNil: %r" % (path, s))
        if s["isNil"]:
            return ("null",)
        if not isinstance(s.get("type"), str) or not isinstance(s.get("text"), str):
            raise BadDto("%s.simple without type/text: %r" % (path, s))
        try:
            return norm_simple(s["type"], s["text"])
        except InvalidOperation:
            raise BadDto("%s.simple has numeric type %s with text %r" % (path, s["type"], s["text"]))
    if present[0] == "list":
        l = d["list"]
        if not isinstance(l, dict) or not isinstance(l.get("items"), list):
            raise BadDto("%s.list without items: %r" % (path, l))
        if l.get("isNil") is True:
            return ("null",)
        return ("list", [norm_received(x, "%s.list[%d]" % (path, i)) for i, x in enumerate(l["items"])])
    comps = d["components"]
    if not isinstance(comps, list):
        raise BadDto("%s.components is not a list" % path)
    out = {}
    for c in comps:
        if not isinstance(c, dict) or not isinstance(c.get("name"), str):
            raise BadDto("%s component without name: %r" % (path, c))
        if c["name"] in out:
            raise BadDto("%s component %r twice" % (path, c["name"]))
        if c.get("isNil") is True:
            out[c["name"]] = ("null",)
        else:
            out[c["name"]] = norm_received(c.get("value"), "%s.%s" % (path, c["name"]))
    return ("context", out)


def same_typed(sent, received):
    """round trip 'unchanged': same kind, same text for strings/temporal, numerically equal numbers (FEEL has one number
    type: the xsd numeric type names are not distinguished), same booleans, same structure."""
    if sent[0] != received[0]:
        return False
    if sent[0] == "list":
        return len(sent[1]) == len(received[1]) and all(same_typed(a, b) for a, b in zip(sent[1], received[1]))
    if sent[0] == "context":
        return set(sent[1]) == set(received[1]) and all(same_typed(sent[1][k], received[1][k]) for k in sent[1])
    return sent == received
