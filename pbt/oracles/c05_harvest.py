"""C05 harvest: every FEEL text that occurs in the repository's own tests, extracted at run time from the sources.

Sources (read-only, nothing of the SUT is executed or imported here):
  * /repo/feel-evaluator/src/tests/**/*.rs  - string literals passed to the te_* / be_* helpers (te_scope gives the scope)
  * /repo/feel-parser/src/tests/**/*.rs     - literals passed to accept / accept_name / parse_* (scope from set_entry calls)
  * /repo/examples/src/examples/valid.rs     - decision tables drawn as text: cell texts and the `% {context}, expected` lines

Each item: {"text", "entry", "scope_text" (FEEL context literal or None), "names" (names bound to null, or []), "src"}.
`python3 -m pbt.oracles.c05_harvest` writes the libFuzzer seed corpus /verif/fuzz/seeds/feel/<sha1> (one file per text)."""
import hashlib
import os
import re
import sys

REPO = os.environ.get("VERIF_REPO", "/repo")
VERIF = os.path.dirname(os.path.dirname(os.path.dirname(os.path.abspath(__file__))))
SEED_DIR = os.path.join(VERIF, "fuzz", "seeds", "feel")

ENTRY_OF_TOKEN = {
    "StartExpression": "expression", "StartTextualExpression": "textual", "StartTextualExpressions": "textuals",
    "StartBoxedExpression": "boxed", "StartContext": "context", "StartUnaryTests": "unary",
}
BOX = set("│║├└┌┐┘┬┴┼─═╥╨╫╪╬╔╗╚╝╠╣╦╩╤╧╟╢╞╡╒╕╘╛╓╖╙╜┤┃━")


# ------------------------------------------------------------------------------------------------
# a small Rust tokenizer: identifiers, string literals (decoded), punctuation; comments and chars skipped
# ------------------------------------------------------------------------------------------------

_SIMPLE_ESC = {"n": "\n", "r": "\r", "t": "\t", "\\": "\\", "0": "\0", '"': '"', "'": "'"}


def _decode(body):
    out = []
    i, n = 0, len(body)
    while i < n:
        c = body[i]
        if c != "\\":
            out.append(c)
            i += 1
            continue
        i += 1
        if i >= n:
            break
        e = body[i]
        if e in _SIMPLE_ESC:
            out.append(_SIMPLE_ESC[e])
            i += 1
        elif e == "x":
            out.append(chr(int(body[i + 1:i + 3], 16)))
            i += 3
        elif e == "u" and i + 1 < n and body[i + 1] == "{":
            j = body.index("}", i)
            out.append(chr(int(body[i + 2:j].replace("_", ""), 16)))
            i = j + 1
        elif e == "\n":  # line continuation: skip the newline and the leading white space of the next line
            i += 1
            while i < n and body[i] in " \t\r\n":
                i += 1
        else:
            out.append("\\" + e)
            i += 1
    return "".join(out)


def rust_tokens(src):
    """-> list of (kind, value): kind in 'id' | 'str' | 'p'."""
    toks = []
    i, n = 0, len(src)
    while i < n:
        c = src[i]
        if c.isspace():
            i += 1
        elif src.startswith("//", i):
            j = src.find("\n", i)
            i = n if j < 0 else j
        elif src.startswith("/*", i):
            depth, i = 1, i + 2
            while i < n and depth:
                if src.startswith("/*", i):
                    depth, i = depth + 1, i + 2
                elif src.startswith("*/", i):
                    depth, i = depth - 1, i + 2
                else:
                    i += 1
        elif c == "r" and i + 1 < n and src[i + 1] in '#"' and re.match(r'r#*"', src[i:]):
            m = re.match(r'r(#*)"', src[i:])
            close = '"' + m.group(1)
            start = i + m.end()
            j = src.find(close, start)
            if j < 0:
                break
            toks.append(("str", src[start:j]))
            i = j + len(close)
        elif c == "b" and i + 1 < n and src[i + 1] == '"':
            i += 1  # byte string: treat as string
        elif c == '"':
            j = i + 1
            while j < n and src[j] != '"':
                j += 2 if src[j] == "\\" else 1
            toks.append(("str", _decode(src[i + 1:j])))
            i = j + 1
        elif c == "'":
            m = re.match(r"'(\\.[^']*|[^'\\])'", src[i:])
            if m:  # char literal
                i += m.end()
            else:  # lifetime
                i += 1
        elif c.isalpha() or c == "_":
            m = re.match(r"[A-Za-z_][A-Za-z_0-9]*!?", src[i:])
            toks.append(("id", m.group(0)))
            i += m.end()
        else:
            toks.append(("p", c))
            i += 1
    return toks


def _call_args(toks, k):
    """toks[k] is '(' ; returns (list of argument token lists, index after the closing paren)."""
    depth, args, cur = 0, [], []
    i = k
    while i < len(toks):
        kind, v = toks[i]
        if kind == "p" and v in "([{":
            depth += 1
            if depth > 1:
                cur.append(toks[i])
        elif kind == "p" and v in ")]}":
            depth -= 1
            if depth == 0:
                if cur:
                    args.append(cur)
                return args, i + 1
            cur.append(toks[i])
        elif kind == "p" and v == "," and depth == 1:
            args.append(cur)
            cur = []
        else:
            cur.append(toks[i])
        i += 1
    return args, i


def _lits(arg):
    return [v for k, v in arg if k == "str"]


def _rs_files(root):
    out = []
    for d, _, files in os.walk(root):
        for f in files:
            if f.endswith(".rs"):
                out.append(os.path.join(d, f))
    return sorted(out)


def _harvest_rust(path, rel, items):
    with open(path, encoding="utf-8") as f:
        toks = rust_tokens(f.read())
    scope_text, names = None, []
    i = 0
    while i < len(toks):
        kind, v = toks[i]
        nxt = toks[i + 1] if i + 1 < len(toks) else ("", "")
        if kind == "id" and v == "fn":
            scope_text, names = None, []
            i += 1
            continue
        if kind != "id" or nxt != ("p", "("):
            i += 1
            continue
        args, _ = _call_args(toks, i + 1)

        def add(text, entry):
            items.append({"text": text, "entry": entry, "scope_text": scope_text, "names": list(names), "src": rel})

        if v == "te_scope":
            l = [x for a in args for x in _lits(a)]
            if l:
                items.append({"text": l[0], "entry": "context", "scope_text": None, "names": [], "src": rel})
                scope_text = l[0]
        elif v == "set_entry":
            l = _lits(args[0]) if args else []
            if l:
                names.append(l[0])
        elif v in ("te_value", "te_be_value"):
            l = [x for a in args for x in _lits(a)]
            if l:
                add(l[0], "textual")
            if len(l) > 1:
                add(l[1], "textual" if v == "te_value" else "expression")
        elif v == "be_be_value":
            l = [x for a in args for x in _lits(a)]
            for x in l[:2]:
                add(x, "boxed")
        elif v == "boxed_expression":
            l = [x for a in args for x in _lits(a)]
            if l:
                add(l[0], "boxed")
        elif v.startswith("te_") or v == "textual_expression":
            l = [x for a in args for x in _lits(a)]
            if l:
                add(l[0], "textual")
        elif v == "accept":
            entry = "textual"
            for a in args:
                for k2, v2 in a:
                    if k2 == "id" and v2 in ENTRY_OF_TOKEN:
                        entry = ENTRY_OF_TOKEN[v2]
            l = [x for a in args for x in _lits(a)]
            if l:
                add(l[0], entry)
        elif v == "accept_name":
            l = [x for a in args for x in _lits(a)]
            if l:
                add(l[0], "name")
        elif v in ("parse_expression", "parse_textual_expression", "parse_textual_expressions", "parse_boxed_expression",
                   "parse_context", "parse_unary_tests", "parse_name", "parse_longest_name"):
            l = [x for a in args for x in _lits(a)]
            entry = {"parse_expression": "expression", "parse_textual_expression": "textual", "parse_textual_expressions": "textuals",
                     "parse_boxed_expression": "boxed", "parse_context": "context", "parse_unary_tests": "unary",
                     "parse_name": "name", "parse_longest_name": "longest_name"}[v]
            if l:
                add(l[0], entry)
        i += 1


def _split_top_comma(s):
    """'{a: 1, b: [1,2]}, 0.10' -> ('{a: 1, b: [1,2]}', '0.10') (first comma at bracket depth 0 outside strings)."""
    depth, in_str, i = 0, False, 0
    while i < len(s):
        c = s[i]
        if in_str:
            if c == "\\":
                i += 1
            elif c == '"':
                in_str = False
        elif c == '"':
            in_str = True
        elif c in "([{":
            depth += 1
        elif c in ")]}":
            depth -= 1
        elif c == "," and depth == 0:
            return s[:i].strip(), s[i + 1:].strip()
        i += 1
    return s.strip(), ""


def _harvest_examples(path, rel, items):
    if not os.path.exists(path):
        return
    with open(path, encoding="utf-8") as f:
        toks = rust_tokens(f.read())
    for kind, v in toks:
        if kind != "str" or "\n" not in v:
            continue
        for line in v.split("\n"):
            s = line.strip()
            if s.startswith("%"):
                ctx, expected = _split_top_comma(s[1:].strip())
                if ctx:
                    items.append({"text": ctx, "entry": "context", "scope_text": None, "names": [], "src": rel})
                if expected:
                    items.append({"text": expected, "entry": "expression", "scope_text": None, "names": [], "src": rel})
            elif any(ch in BOX for ch in s):
                for cell in re.split("[│║┃]", s):
                    cell = cell.strip()
                    if cell and not any(ch in BOX for ch in cell):
                        items.append({"text": cell, "entry": "unary", "scope_text": None, "names": [], "src": rel})
            elif s and not s.startswith("//"):
                # information item names / free text above a table
                items.append({"text": s, "entry": "textual", "scope_text": None, "names": [], "src": rel})


_CACHE = None


def harvest():
    """All harvested items, deduplicated by (text, entry, scope_text, names), in a deterministic order."""
    global _CACHE
    if _CACHE is not None:
        return _CACHE
    items = []
    for root in ("feel-evaluator/src/tests", "feel-parser/src/tests"):
        for p in _rs_files(os.path.join(REPO, root)):
            _harvest_rust(p, os.path.relpath(p, REPO), items)
    _harvest_examples(os.path.join(REPO, "examples/src/examples/valid.rs"), "examples/src/examples/valid.rs", items)
    seen, out = set(), []
    for it in items:
        if any(0xD800 <= ord(c) <= 0xDFFF for c in it["text"]):
            continue
        key = (it["text"], it["entry"], it["scope_text"], tuple(it["names"]))
        if key in seen:
            continue
        seen.add(key)
        out.append(it)
    _CACHE = out
    return out


def texts():
    """Distinct texts only (for the seed corpus)."""
    seen, out = set(), []
    for it in harvest():
        for t in (it["text"], it["scope_text"]):
            if t is not None and t not in seen:
                seen.add(t)
                out.append(t)
    return out


def write_seeds(directory=SEED_DIR):
    os.makedirs(directory, exist_ok=True)
    want = {}
    for t in texts():
        data = t.encode("utf-8")
        want[hashlib.sha1(data).hexdigest()] = data
    have = set(os.listdir(directory))
    for name, data in want.items():
        if name not in have:
            tmp = os.path.join(directory, ".%s.%d" % (name, os.getpid()))
            with open(tmp, "wb") as f:
                f.write(data)
            os.replace(tmp, os.path.join(directory, name))
    return len(want)


if __name__ == "__main__":
    its = harvest()
    n = write_seeds()
    by = {}
    for it in its:
        by[it["entry"]] = by.get(it["entry"], 0) + 1
    print("harvested %d items (%d distinct texts) %s -> %s" % (len(its), n, by, SEED_DIR))
    if "-v" in sys.argv:
        for it in its:
            print(repr(it["text"])[:160], it["entry"], it["src"])
