"""Reference decision-table evaluator (DMN 1.3 clause 8.2 / the statement of C03). Own unary-test evaluator over numbers
(exact Decimal), strings (code point order) and booleans; nothing here comes from the SUT.

evaluate(T, tuple) -> (result, info)
  result: None (null) | Decimal | str | bool | list | dict(component name -> value) | UNSPEC
  info:   {"matches": [rule indexes], "unspec": reason|None, "pattern": "none"|"one"|"several-equal"|"several-different"|"all"...}
UNSPEC marks inputs on which the DMN text / the property statement does not fix the result (see reasons below); the caller
asserts only totality and path agreement there.
"""
from decimal import Decimal

from .dtable_model import lit_value, input_value, boundary_points, Tv


class _Unspec:
    def __repr__(self):
        return "UNSPEC"


UNSPEC = _Unspec()


def _same_kind(a, b):
    if isinstance(a, Tv) or isinstance(b, Tv):
        return isinstance(a, Tv) and isinstance(b, Tv) and a.kind == b.kind
    if isinstance(a, bool) or isinstance(b, bool):
        return isinstance(a, bool) and isinstance(b, bool)
    if isinstance(a, Decimal) or isinstance(b, Decimal):
        return isinstance(a, Decimal) and isinstance(b, Decimal)
    return isinstance(a, str) and isinstance(b, str)


def simple_holds(t, v):
    """True / False / None (None = not decidable: null input or operands of different kinds)."""
    if v is None:
        return None
    k = t[0]
    if k == "lit":
        w = lit_value(t[1])
        if not _same_kind(v, w):
            return None
        return v == w
    if k == "cmp":
        w = lit_value(t[2])
        if not _same_kind(v, w) or isinstance(v, bool):
            return None
        op = t[1]
        return (v < w) if op == "<" else (v <= w) if op == "<=" else (v > w) if op == ">" else (v >= w)
    if k == "iv":
        _, lc, lo, hi, hc, _alt = t
        a, b = lit_value(lo), lit_value(hi)
        if not (_same_kind(v, a) and _same_kind(v, b)) or isinstance(v, bool):
            return None
        left = (v >= a) if lc else (v > a)
        right = (v <= b) if hc else (v < b)
        return left and right
    raise ValueError(t)


def test_holds(t, v):
    """Unary test t applied to input value v: True / False / None."""
    k = t[0]
    if k == "-":
        return None if v is None else True      # null against '-': the DMN text and the SUT disagree -> undecided here
    if k in ("lit", "cmp", "iv"):
        return simple_holds(t, v)
    rs = [simple_holds(x, v) for x in t[1]]
    if k == "or":
        if any(r is True for r in rs):
            return True
        return None if any(r is None for r in rs) else False
    if k == "not":
        if any(r is True for r in rs):
            return False
        return None if any(r is None for r in rs) else True
    raise ValueError(t)


def allowed(c, v):
    """Input value against the clause's allowed values (None = undecidable)."""
    if not c["values"]:
        return True
    rs = [simple_holds(x, v) for x in c["values"]]
    if any(r is True for r in rs):
        return True
    return None if any(r is None for r in rs) else False


def matching(T, values):
    """(list of matching rule indexes, reason_unspecified|None)."""
    reason = None
    for c, v in zip(T["inputs"], values):
        a = allowed(c, v)
        if a is not True:
            reason = "input-outside-allowed-values" if a is False else "null-or-mistyped-input"
    out = []
    for i, r in enumerate(T["rules"]):
        hs = [test_holds(e, v) for e, v in zip(r["in"], values)]
        if any(h is False for h in hs):
            continue                                 # definitely not matching, whatever the undecided entries are
        if any(h is None for h in hs):
            reason = reason or "null-or-mistyped-input"
            continue
        out.append(i)
    return out, reason


def rule_output(T, i):
    r = T["rules"][i]
    vals = [lit_value(o) for o in r["out"]]
    if len(vals) == 1:
        return vals[0]
    return {c["name"]: v for c, v in zip(T["outputs"], vals)}


def _eq(a, b):
    if isinstance(a, dict) and isinstance(b, dict):
        return a.keys() == b.keys() and all(_eq(a[k], b[k]) for k in a)
    if isinstance(a, bool) != isinstance(b, bool):
        return False
    return type(a) == type(b) and a == b


def priority_key(T, i):
    """Positions of the rule's output entries in the output values of the clauses that have them (left to right)."""
    key = []
    for c, o in zip(T["outputs"], T["rules"][i]["out"]):
        if c["values"]:
            pos = None
            for p, l in enumerate(c["values"]):
                if _eq(lit_value(l), lit_value(o)):
                    pos = p
                    break
            key.append(pos)
    return key


def pattern_of(T, ms):
    n = len(T["rules"])
    if not ms:
        return "none"
    if len(ms) == 1:
        return "all" if n == 1 else "one"
    outs = [rule_output(T, i) for i in ms]
    same = all(_eq(o, outs[0]) for o in outs)
    if len(ms) == n:
        return "all"
    return "several-equal" if same else "several-different"


def evaluate(T, tup):
    values = [input_value(v) for v in tup]
    ms, reason = matching(T, values)
    info = {"matches": ms, "unspec": reason, "pattern": pattern_of(T, ms)}
    if reason:
        return UNSPEC, info
    hp = T["hp"]
    no = len(T["outputs"])
    if not ms:
        defaults = [c.get("default") for c in T["outputs"]]
        if not any(defaults):
            return None, info
        if no == 1:
            return lit_value(defaults[0]), info
        info["unspec"] = "default-with-several-outputs"
        return UNSPEC, info
    for i in ms:
        for c, o in zip(T["outputs"], T["rules"][i]["out"]):
            if c["values"] and not any(_eq(lit_value(l), lit_value(o)) for l in c["values"]):
                info["unspec"] = "output-entry-outside-output-values"
                return UNSPEC, info
    outs = [rule_output(T, i) for i in ms]
    if hp == "U":
        return (outs[0] if len(ms) == 1 else None), info
    if hp == "A":
        return (outs[0] if all(_eq(o, outs[0]) for o in outs) else None), info
    if hp == "F":
        return outs[0], info
    if hp in ("R", "C"):
        return outs, info
    if hp in ("P", "O"):
        keys = [priority_key(T, i) for i in ms]
        if not keys[0]:
            info["unspec"] = "priority-without-output-values"
            return UNSPEC, info
        order = sorted(range(len(ms)), key=lambda k: keys[k])     # stable: ties keep rule order
        # ties between rules whose outputs differ: the order among them is not fixed by the DMN text
        for a in range(len(order) - 1):
            x, y = order[a], order[a + 1]
            if keys[x] == keys[y] and not _eq(outs[x], outs[y]):
                if hp == "O" or a == 0:
                    info["unspec"] = "priority-tie-with-different-outputs"
                    return UNSPEC, info
        ranked = [outs[k] for k in order]
        return (ranked[0] if hp == "P" else ranked), info
    if hp == "C#":
        return Decimal(len(ms)), info
    # C+, C<, C>
    if no > 1:
        info["unspec"] = "aggregator-with-several-outputs"
        return UNSPEC, info
    if not all(isinstance(o, Decimal) for o in outs):
        info["unspec"] = "aggregator-over-non-numbers"
        return UNSPEC, info
    if hp == "C+":
        return sum(outs, Decimal(0)), info
    if hp == "C<":
        return min(outs), info
    return max(outs), info


# ------------------------------------------------------------------------------------------------------------------
# input tuples derived from the table's own boundary points (generator side, uses only the reference matcher)
# ------------------------------------------------------------------------------------------------------------------

TARGETS = ["none", "one", "several-equal", "several-different", "all"]


def derive_tuples(src, T, k):
    """k input tuples whose match pattern is chosen: candidates are built per target from the points that satisfy / violate
    the entries (reference matcher), classified, and one candidate per requested pattern is taken."""
    ni = len(T["inputs"])
    nr = len(T["rules"])
    pts, sat, ok = [], [], []
    for j in range(ni):
        p = boundary_points(T, j)
        c = T["inputs"][j]
        good = [allowed(c, input_value(x)) is True for x in p]
        if any(good) and src.bool(0.9):
            p = [x for x, g in zip(p, good) if g]
        pts.append(p)
        sat.append([{i for i in range(nr) if test_holds(T["rules"][i]["in"][j], input_value(x)) is True} for x in p])
    cands = []
    for i in range(nr):                                 # tuples built to satisfy rule i
        for _ in range(2):
            tup = []
            for j in range(ni):
                idx = [q for q in range(len(pts[j])) if i in sat[j][q]]
                tup.append(src.choice(idx) if idx else src.int(0, len(pts[j]) - 1))
            cands.append(tup)
    for _ in range(2):                                  # as many rules as possible
        tup = []
        for j in range(ni):
            best = max(len(s) for s in sat[j])
            tup.append(src.choice([q for q in range(len(pts[j])) if len(sat[j][q]) == best]))
        cands.append(tup)
    for _ in range(2):                                  # as few as possible
        tup = []
        for j in range(ni):
            worst = min(len(s) for s in sat[j])
            tup.append(src.choice([q for q in range(len(pts[j])) if len(sat[j][q]) == worst]))
        cands.append(tup)
    for _ in range(12):
        cands.append([src.int(0, len(pts[j]) - 1) for j in range(ni)])
    buckets = {}
    for tup in cands:
        ms = set(range(nr))
        for j, q in enumerate(tup):
            ms &= sat[j][q]
        buckets.setdefault(pattern_of(T, sorted(ms)), []).append(tup)
    out = []
    start = src.int(0, len(TARGETS) - 1)
    order = TARGETS[start:] + TARGETS[:start]
    while len(out) < k:
        progressed = False
        for t in order:
            b = buckets.get(t)
            if b and len(out) < k:
                tup = b.pop(src.int(0, len(b) - 1))
                out.append([pts[j][q] for j, q in enumerate(tup)])
                progressed = True
        if not progressed:
            out.append([src.choice(p) for p in pts])
    if src.bool(0.06):
        t = list(out[-1])
        t[src.int(0, ni - 1)] = None
        out[-1] = t
    return out



# ------------------------------------------------------------------------------------------------------------------
# comparison with the driver's value encoding
# ------------------------------------------------------------------------------------------------------------------

def from_wire(j):
    """Driver JSON value -> python value comparable with reference results. Raises ValueError on foreign shapes."""
    if j is None:
        return None
    if isinstance(j, bool):
        return j
    if isinstance(j, dict):
        if "N" in j:
            return None
        if "n" in j:
            return Decimal(j["n"])
        if "s" in j:
            return j["s"]
        if "l" in j:
            return [from_wire(x) for x in j["l"]]
        if "c" in j:
            return {k: from_wire(v) for k, v in j["c"]}
    raise ValueError("unexpected value %r" % (j,))


def same(a, b):
    """Deep equality: numbers by value, lists in order, contexts by key."""
    if isinstance(a, list) and isinstance(b, list):
        return len(a) == len(b) and all(same(x, y) for x, y in zip(a, b))
    if isinstance(a, dict) and isinstance(b, dict):
        return a.keys() == b.keys() and all(same(a[k], b[k]) for k in a)
    if a is None or b is None:
        return a is None and b is None
    return _eq(a, b)


def show(v):
    if isinstance(v, Decimal):
        return format(v, "f")
    if isinstance(v, list):
        return "[" + ", ".join(show(x) for x in v) + "]"
    if isinstance(v, dict):
        return "{" + ", ".join("%s: %s" % (k, show(x)) for k, x in v.items()) + "}"
    if isinstance(v, str):
        return '"%s"' % v
    if v is None:
        return "null"
    if v is UNSPEC:
        return "UNSPEC"
    return "true" if v is True else "false" if v is False else repr(v)
