"""C05 dictionary: FEEL keywords, built-in function names with their parameter names, type names, temporal fragments.

Everything that can be read from /repo's sources is read from there at run time (so a new built-in or parameter name is
picked up automatically); the static lists below are the FEEL grammar's own vocabulary and serve as a floor.
`python3 -m pbt.oracles.c05_dict` writes /verif/fuzz/feel.dict in libFuzzer dictionary format."""
import os
import re

REPO = os.environ.get("VERIF_REPO", "/repo")
VERIF = os.path.dirname(os.path.dirname(os.path.dirname(os.path.abspath(__file__))))
DICT_PATH = os.path.join(VERIF, "fuzz", "feel.dict")

KEYWORDS = ["and", "between", "context", "else", "every", "external", "false", "for", "function", "if", "in", "instance", "of",
            "list", "not", "null", "or", "range", "return", "satisfies", "some", "then", "true", "item", "partial"]
OPERATORS = ["..", "**", "!=", "<=", ">=", "->", ".", ",", ":", "+", "-", "*", "/", "=", "<", ">", "(", ")", "[", "]", "{", "}",
             "@", "?", "//", "/*", "*/", "\"", "\\\"", "\\u", "\\U", "\\n", "'"]
TYPE_NAMES = ["Any", "Null", "boolean", "number", "string", "date", "time", "date and time", "years and months duration",
              "days and time duration", "list<", "range<", "context<", "function<", ">->"]
TEMPORAL = ["@\"", "P", "PT", "P1D", "P1Y", "P1M", "PT1H", "PT1M", "PT1S", "PT0.5S", "-P", "T", "Z", "z", "+00:00", "-00:00", "+14:00",
            "-14:00", "+14:59:59", "-14:59:59", "+99:99", "@Europe/Warsaw", "@America/New_York", "@Etc/UTC", "@Australia/Lord_Howe",
            "@Pacific/Apia", "2021-03-28", "2021-10-31", "02:30:00", "24:00:00", "23:59:60", "23:59:59.999999999", "999999999-12-31",
            "-999999999-01-01", "0000-01-01", "2020-02-29", "2021-02-29", "2021-03-28T02:30:00@Europe/Warsaw",
            "2021-10-31T02:30:00@Europe/Warsaw", "P18446744073709551615D", "P18446744073709551615Y", "P9223372036854775807M",
            "P768614336404564650Y", "PT18446744073709551615S", ".weekday", ".time offset", ".timezone", ".year", ".month", ".day",
            ".hour", ".minute", ".second", ".days", ".hours", ".minutes", ".seconds", ".years", ".months"]
NUMBERS = ["0", "1", "-1", "0.5", ".5", "9223372036854775807", "9223372036854775808", "18446744073709551615", "18446744073709551616",
           "10000000000000000000000000000000000", "9999999999999999999999999999999999", "0.000000000000000000000000000000000001",
           "2147483647", "2147483648", "4294967295", "4294967296", "255", "256", "6144", "6176"]


def _read(rel):
    try:
        with open(os.path.join(REPO, rel), encoding="utf-8") as f:
            return f.read()
    except OSError:
        return ""


def lexer_keywords():
    """Keyword spellings matched by the lexer's character-array patterns: ['s','a','t',...]."""
    src = _read("feel-parser/src/lexer.rs")
    out = []
    for m in re.finditer(r"^\s*\[((?:'[a-z]',\s*)+)", src, re.M):
        w = "".join(re.findall(r"'([a-z])'", m.group(1)))
        if len(w) >= 2 and w not in out:
            out.append(w)
    return out


def type_names():
    src = _read("feel-parser/src/lexer.rs")
    m = re.search(r'"Any"((?:\s*\|\s*"[^"]+")+)', src)
    out = ["Any"] + re.findall(r'"([^"]+)"', m.group(1)) if m else []
    return out


def bif_names():
    """[(feel name, enum variant)] from feel/src/bif.rs."""
    return re.findall(r'^\s*"([^"]+)"\s*=>\s*Ok\(Self::(\w+)\)', _read("feel/src/bif.rs"), re.M)


def _name_constants():
    """NAME_X -> FEEL parameter name (named.rs)."""
    src = _read("feel-evaluator/src/bifs/named.rs")
    out = {}
    for m in re.finditer(r"static ref (NAME_\w+): Name = Name::from\(\"([^\"]+)\"\)", src):
        out[m.group(1)] = m.group(2)
    for m in re.finditer(r"static ref (NAME_\w+): Name = Name::new\(&\[([^\]]+)\]\)", src):
        out[m.group(1)] = " ".join(re.findall(r'"([^"]+)"', m.group(2)))
    return out


def bif_parameters():
    """feel function name -> list of alternative parameter-name lists, read from named.rs.
    An alternative is a maximal chain of nested get_param lookups; when the source structure is not recognised, all names
    the function mentions form one alternative."""
    src = _read("feel-evaluator/src/bifs/named.rs")
    consts = _name_constants()
    fn_of_variant = dict(re.findall(r"Bif::(\w+)\s*=>\s*(bif_\w+)\(parameters\)", src))
    bodies = {}
    for m in re.finditer(r"^fn (bif_\w+)\(_?parameters: &NamedParameters\) -> Value \{(.*?)^\}", src, re.M | re.S):
        bodies[m.group(1)] = m.group(2)
    out = {}
    for feel_name, variant in bif_names():
        body = bodies.get(fn_of_variant.get(variant, ""), "")
        alts = []
        # alternatives: split the body at top-level `if let` / `else if let` statements (brace depth 1 of the function)
        depth, cur, chunks = 0, [], []
        for line in body.split("\n"):
            if depth == 0 and re.match(r"\s*(\} else )?if let", line) and cur:
                chunks.append("\n".join(cur))
                cur = []
            cur.append(line)
            depth += line.count("{") - line.count("}")
            depth = max(depth, 0)
        if cur:
            chunks.append("\n".join(cur))
        for ch in chunks:
            names = []
            for c in re.findall(r"get_param\(parameters, &(NAME_\w+)\)", ch):
                n = consts.get(c)
                if n and n not in names:
                    names.append(n)
            if names and names not in alts:
                alts.append(names)
        out[feel_name] = alts
    return out


def parameter_names():
    return sorted(set(_name_constants().values()))


def all_words():
    """Everything, deduplicated, deterministic order."""
    words = []
    for group in (KEYWORDS, lexer_keywords(), OPERATORS, TYPE_NAMES, type_names(), [n for n, _ in bif_names()], parameter_names(),
                  TEMPORAL, NUMBERS):
        for w in group:
            if w not in words:
                words.append(w)
    return words


def _esc(w):
    out = []
    for b in w.encode("utf-8"):
        if b in (0x22, 0x5C):
            out.append("\\" + chr(b))
        elif 0x20 <= b < 0x7F:
            out.append(chr(b))
        else:
            out.append("\\x%02x" % b)
    return "".join(out)


def write_dict(path=DICT_PATH):
    words = all_words()
    os.makedirs(os.path.dirname(path), exist_ok=True)
    tmp = "%s.%d" % (path, os.getpid())
    with open(tmp, "w", encoding="ascii") as f:
        f.write("# FEEL dictionary for libFuzzer (generated by pbt/oracles/c05_dict.py from /repo sources)\n")
        for i, w in enumerate(words):
            f.write("w%d=\"%s\"\n" % (i, _esc(w)))
    os.replace(tmp, path)
    return len(words)


if __name__ == "__main__":
    n = write_dict()
    print("%d dictionary entries -> %s" % (n, DICT_PATH))
    print("lexer keywords:", lexer_keywords())
    print("type names:", type_names())
    print("built-ins: %d" % len(bif_names()))
    for k, v in bif_parameters().items():
        print("  %-28s %s" % (k, v))
