"""Item-definition trees (to depth 3), values built from them, single-position violations, and the DMN XML of a model that
shows what reaches the logic / what comes out of typed output variables (property C11). Imports nothing from the SUT.

Tree node (plain JSON):
  {"k": "simple", "type": <one of TYPES>, "av": AV|None, "coll": bool}
  {"k": "ref", "to": node, "av": AV|None, "coll": bool}          a definition whose typeRef names another definition
  {"k": "comp", "comps": [[name, node]...], "coll": bool}        a structure; nested structures are anonymous item components
AV (allowed values): ["set", [lit...]] | ["rng", lo, hi] (closed) | ["ge", lit] | ["lt", lit]; lit = wire value of the base type.
Values are wire values (pbt/val.py): null | bool | {"n"} | {"s"} | {"l"} | {"c"} | {"date"|"time"|"dt"|"dtd"|"ymd"}.
"""
from . import feel as F
from . import dmn_xml as X

TYPES = ["number", "string", "boolean", "date", "time", "dateTime", "dayTimeDuration", "yearMonthDuration"]
COMP_NAMES = ["k", "m", "Full Name", "g", "size 2"]

SAMPLES = {
    "number": [{"n": "0"}, {"n": "1"}, {"n": "2"}, {"n": "3"}, {"n": "10"}, {"n": "-5"}, {"n": "2.50"}, {"n": "100"}],
    "string": [{"s": "a"}, {"s": "b"}, {"s": "abc"}, {"s": ""}, {"s": "foo bar"}, {"s": "2020-01-01"}, {"s": "1"}],
    "boolean": [False, True],
    "date": [{"date": "2020-02-29"}, {"date": "2021-06-15"}, {"date": "1999-12-31"}, {"date": "2020-07-01"}],
    "time": [{"time": "10:30:00"}, {"time": "23:59:59"}, {"time": "00:00:00"}],
    "dateTime": [{"dt": "2020-02-29T10:30:00"}, {"dt": "2021-06-15T00:00:00"}, {"dt": "1999-12-31T23:59:59"}],
    "dayTimeDuration": [{"dtd": "P1DT2H"}, {"dtd": "PT30M"}, {"dtd": "P10D"}],
    "yearMonthDuration": [{"ymd": "P1Y2M"}, {"ymd": "P3M"}, {"ymd": "P10Y"}],
}
# the kind a careless copy of a per-type check would most likely let through
NEIGHBOUR = {"number": "string", "string": "number", "boolean": "string", "date": "dateTime", "time": "dateTime", "dateTime": "date",
             "dayTimeDuration": "yearMonthDuration", "yearMonthDuration": "dayTimeDuration"}
KEY_OF_TYPE = {"number": "n", "string": "s", "date": "date", "time": "time", "dateTime": "dt", "dayTimeDuration": "dtd",
               "yearMonthDuration": "ymd"}


def type_of_wire(v):
    """built-in type name of a scalar wire value (None for null / lists / contexts)"""
    if isinstance(v, bool):
        return "boolean"
    if isinstance(v, dict):
        for t, key in KEY_OF_TYPE.items():
            if key in v:
                return t
    return None


# ------------------------------------------------------------------------------------------------------------------
# trees
# ------------------------------------------------------------------------------------------------------------------

def gen_av(src, t):
    s = src
    if t == "number":
        c = s.weighted([(3, "set"), (2, "rng"), (1, "ge"), (1, "lt")])
        if c == "set":
            return ["set", s.sample(SAMPLES["number"][:6], s.int(1, 3))]
        if c == "rng":
            return ["rng", {"n": "0"}, {"n": s.choice(["3", "10"])}]
        return [c, {"n": s.choice(["0", "2", "10"])}]
    if t == "string":
        return ["set", s.sample(SAMPLES["string"][:5], s.int(1, 3))]
    if t == "boolean":
        return ["set", [s.bool()]]
    if t == "date":
        return ["rng", {"date": "2020-01-01"}, {"date": "2020-12-31"}] if s.bool(0.5) else ["set", s.sample(SAMPLES["date"], 2)]
    return ["set", s.sample(SAMPLES[t], s.int(1, 2))]


def gen_simple(src, av_p=0.35):
    t = src.weighted([(4, "number"), (3, "string"), (2, "boolean"), (2, "date"), (1, "time"), (2, "dateTime"), (1, "dayTimeDuration"),
                      (1, "yearMonthDuration")])
    return {"k": "simple", "type": t, "av": gen_av(src, t) if src.bool(av_p) else None, "coll": False}


def scalar_chain(node):
    """True when the node and everything it references (transitively) is a non-collection scalar definition"""
    while True:
        if node["coll"] or node["k"] == "comp":
            return False
        if node["k"] == "simple":
            return True
        node = node["to"]


def base_type(node):
    """built-in type at the bottom of a chain of references (None for structures)"""
    while node["k"] == "ref":
        node = node["to"]
    return node["type"] if node["k"] == "simple" else None


def gen_tree(src, depth=3, top=True):
    """depth = how many more levels of reference / structure may be nested"""
    s = src
    if depth <= 0:
        n = gen_simple(s)
    else:
        c = s.weighted([(4, "simple"), (3, "ref"), (4, "comp")])
        if c == "simple":
            n = gen_simple(s)
        elif c == "ref":
            to = gen_tree(s, depth - 1, top=False)
            n = {"k": "ref", "to": to, "av": gen_av(s, base_type(to)) if scalar_chain(to) and s.bool(0.25) else None, "coll": False}
        else:
            names = s.sample(COMP_NAMES, s.int(1, 3))
            n = {"k": "comp", "comps": [[nm, gen_tree(s, depth - 1, top=False)] for nm in names], "coll": False}
    if s.bool(0.3) and not (n["k"] == "ref" and n["to"]["coll"]):
        n["coll"] = True
    return n


def depth(n):
    if n["k"] == "simple":
        return 0
    if n["k"] == "ref":
        return 1 + depth(n["to"])
    return 1 + max(depth(c) for _, c in n["comps"])


def shape(n):
    """compact text of a tree (class label / distinctness key)"""
    if n["k"] == "simple":
        s = n["type"] + ("!" if n["av"] else "")
    elif n["k"] == "ref":
        s = "ref(%s)%s" % (shape(n["to"]), "!" if n["av"] else "")
    else:
        s = "{%s}" % ",".join(shape(c) for _, c in n["comps"])
    return s + ("*" if n["coll"] else "")


def variants(n, acc=None):
    """set of SUT-relevant definition variants occurring in the tree"""
    if acc is None:
        acc = set()
    v = {"simple": "simple", "ref": "referenced", "comp": "component"}[n["k"]]
    acc.add(("collection-of-" if n["coll"] else "") + v + ("+allowed" if n.get("av") else ""))
    if n["k"] == "ref":
        variants(n["to"], acc)
    elif n["k"] == "comp":
        for _, c in n["comps"]:
            variants(c, acc)
    return acc


# ------------------------------------------------------------------------------------------------------------------
# values
# ------------------------------------------------------------------------------------------------------------------

def lit_key(v):
    """total order key inside one built-in type (numbers numerically, everything else by its fixed-width text)"""
    from decimal import Decimal
    if isinstance(v, bool):
        return v
    if "n" in v:
        return Decimal(v["n"])
    return list(v.values())[0]


def av_holds(av, v):
    k = av[0]
    if k == "set":
        return any(type_of_wire(x) == type_of_wire(v) and lit_key(x) == lit_key(v) for x in av[1])
    if k == "rng":
        return lit_key(av[1]) <= lit_key(v) <= lit_key(av[2])
    if k == "ge":
        return lit_key(v) >= lit_key(av[1])
    if k == "lt":
        return lit_key(v) < lit_key(av[1])
    raise ValueError(av)


def allowed_chain(n):
    """all allowed-values constraints that apply to a scalar of this node (own + referenced definitions')"""
    out = []
    while True:
        if n.get("av"):
            out.append(n["av"])
        if n["k"] != "ref":
            return out
        n = n["to"]


def scalar_conforming(src, n):
    """a scalar of the node's base type satisfying every allowed-values constraint along the reference chain; None if there is none"""
    t = base_type(n)
    avs = allowed_chain(n)
    pool = list(SAMPLES[t])
    for av in avs:
        if av[0] == "set":
            pool += av[1]
    ok = [v for v in pool if all(av_holds(av, v) for av in avs)]
    return src.choice(ok) if ok else None


def feasible(n):
    """every scalar position of the tree has at least one sample value satisfying all allowed-values constraints"""
    if n["k"] == "comp":
        return all(feasible(c) for _, c in n["comps"])
    if n["k"] == "ref" and not n["av"]:
        return feasible(n["to"])
    t = base_type(n)
    avs = allowed_chain(n)
    pool = list(SAMPLES[t])
    for av in avs:
        if av[0] == "set":
            pool += av[1]
    return any(all(av_holds(av, v) for av in avs) for v in pool)


def conforming(src, n, as_item=False):
    """a value conforming to the node (ignoring `coll` when as_item); None when the constraints are unsatisfiable"""
    if n["coll"] and not as_item:
        k = src.weighted([(2, 2), (2, 1), (1, 3), (1, 0)])
        items = []
        for _ in range(k):
            x = conforming(src, n, as_item=True)
            if x is None:
                return None
            items.append(x)
        return {"l": items}
    if n["k"] == "comp":
        entries = []
        for name, c in n["comps"]:
            x = conforming(src, c)
            if x is None:
                return None
            entries.append([name, x])
        return {"c": entries}
    if n["k"] == "ref" and not n["av"]:
        return conforming(src, n["to"])
    return scalar_conforming(src, n)


def positions(n, v, path=(), as_item=False):
    """positions of a conforming value at which one violation can be planted: (path, node, "list"|"value");
    path steps: ("item", index) into a list, ("c", name) into a context. `node` is the outermost definition that
    governs the position (so that its chain of allowed values is known)."""
    if n["coll"] and not as_item:
        out = [(path, n, "list")]
        for i, x in enumerate(v["l"]):
            out += positions(n, x, path + (("item", i),), as_item=True)
        return out
    if n["k"] == "ref":
        if n["to"]["coll"]:
            return positions(n["to"], v, path)
        sub = positions(n["to"], v, path)
        return [(path, n, "value")] + sub[1:]
    out = [(path, n, "value")]
    if n["k"] == "comp":
        d = dict((a, b) for a, b in v["c"])
        for name, c in n["comps"]:
            out += positions(c, d[name], path + (("c", name),))
    return out


def get_at(v, path):
    for step, key in path:
        if step == "item":
            v = v["l"][key]
        elif step == "c":
            v = dict((a, b) for a, b in v["c"])[key]
    return v


def set_at(v, path, new, delete=False):
    """copy of v with the value at path replaced (or the context entry removed)"""
    if not path:
        return new
    (step, key), rest = path[0], path[1:]
    if step == "item":
        items = list(v["l"])
        if not rest and delete:
            del items[key]
        else:
            items[key] = set_at(items[key], rest, new, delete)
        return {"l": items}
    entries = []
    for a, b in v["c"]:
        if a == key:
            if not rest and delete:
                continue
            entries.append([a, set_at(b, rest, new, delete)])
        else:
            entries.append([a, b])
    return {"c": entries}


def other_scalar(src, t, neighbour):
    """a scalar that is not of built-in type t"""
    if neighbour and t in NEIGHBOUR:
        return src.choice(SAMPLES[NEIGHBOUR[t]])
    u = src.choice([x for x in TYPES if x != t])
    return src.choice(SAMPLES[u])


def violate(src, n, v):
    """-> (mutated value, mutation label, path text) with exactly one position changed; None if nothing applies"""
    pos = positions(n, v)
    path, node, what = src.choice(pos)
    cur = get_at(v, path)
    t = base_type(node)
    opts = []
    if what == "list":
        opts += ["scalar-for-collection", "null-item", "wrong-kind-item"]
    else:
        opts += ["singleton-for-scalar", "null"]
        if t is not None and not (isinstance(cur, dict) and "c" in cur):
            opts += ["wrong-kind", "wrong-kind", "neighbour-kind", "neighbour-kind"]
            if allowed_chain(node):
                opts += ["outside-allowed", "outside-allowed", "outside-allowed"]
        if isinstance(cur, dict) and "c" in cur:
            opts += ["missing-component", "extra-entry", "scalar-for-structure"]
    m = src.choice(opts)
    if m == "scalar-for-collection":
        new = cur["l"][0] if cur["l"] else ({"n": "1"} if t in (None, "number") else src.choice(SAMPLES[t]))
    elif m == "null-item":
        new = {"l": list(cur["l"]) + [None]}
    elif m == "wrong-kind-item":
        bad = other_scalar(src, t, src.bool(0.5)) if t else {"n": "7"}
        items = list(cur["l"])
        items.insert(src.int(0, len(items)), bad)
        new = {"l": items}
    elif m == "singleton-for-scalar":
        new = {"l": [cur]}
    elif m == "null":
        new = None
    elif m == "wrong-kind":
        new = other_scalar(src, t, False)
    elif m == "neighbour-kind":
        new = other_scalar(src, t, True)
    elif m == "outside-allowed":
        avs = allowed_chain(node)
        pool = [x for x in SAMPLES[t] if not all(av_holds(a, x) for a in avs)]
        if t == "number":
            pool += [x for x in [{"n": "-1"}, {"n": "11"}, {"n": "1000"}, {"n": "0.5"}] if not all(av_holds(a, x) for a in avs)]
        if not pool:
            return None
        new = src.choice(pool)
    elif m == "missing-component":
        names = [a for a, _ in cur["c"]]
        drop = src.choice(names)
        new = {"c": [[a, b] for a, b in cur["c"] if a != drop]}
    elif m == "extra-entry":
        new = {"c": cur["c"] + [["zz extra", {"n": "42"}]]}
    else:
        new = {"n": "7"}
    return set_at(v, path, new), m, "/".join("%s" % (k,) for _, k in path) or "."


def drop_and_rename(src, n, v):
    """-> (value with one component removed, the same value with that component renamed instead, path text) or None: the renamed
    entry keeps its value and sorts right after the old name, so the two values differ only by one extra, unrelated entry"""
    pos = [(path, node) for path, node, what in positions(n, v) if what == "value" and isinstance(get_at(v, path), dict) and "c" in get_at(v, path)
           and get_at(v, path)["c"]]
    if not pos:
        return None
    path, _ = src.choice(pos)
    cur = get_at(v, path)
    names = [a for a, _ in cur["c"]]
    old = src.choice(names)
    new_name = old + "0"
    if new_name in names:
        return None
    dropped = {"c": [[a, b] for a, b in cur["c"] if a != old]}
    renamed = {"c": [[(new_name if a == old else a), b] for a, b in cur["c"]]}
    where = "/".join("%s" % (k,) for _, k in path) or "."
    return set_at(v, path, dropped), set_at(v, path, renamed), where


# ------------------------------------------------------------------------------------------------------------------
# FEEL text of values and allowed values
# ------------------------------------------------------------------------------------------------------------------

def feel_text(v):
    if v is None:
        return "null"
    if isinstance(v, bool):
        return "true" if v else "false"
    if "n" in v:
        return v["n"] if not v["n"].startswith("-") else "(%s)" % v["n"]
    if "s" in v:
        return F.esc(v["s"])
    if "l" in v:
        return "[" + ", ".join(feel_text(x) for x in v["l"]) + "]"
    if "c" in v:
        return "{" + ", ".join("%s: %s" % (F.key_text(k), feel_text(x)) for k, x in v["c"]) + "}"
    if "date" in v:
        return 'date("%s")' % v["date"]
    if "time" in v:
        return 'time("%s")' % v["time"]
    if "dt" in v:
        return 'date and time("%s")' % v["dt"]
    if "dtd" in v:
        return 'duration("%s")' % v["dtd"]
    if "ymd" in v:
        return 'duration("%s")' % v["ymd"]
    raise ValueError(v)


def av_text(av):
    k = av[0]
    if k == "set":
        return ", ".join(feel_text(x).strip("()") if isinstance(x, dict) and "n" in x else feel_text(x) for x in av[1])
    if k == "rng":
        return "[%s..%s]" % (feel_text(av[1]), feel_text(av[2]))
    if k == "ge":
        return ">= " + feel_text(av[1])
    if k == "lt":
        return "< " + feel_text(av[1])
    raise ValueError(av)


# ------------------------------------------------------------------------------------------------------------------
# XML
# ------------------------------------------------------------------------------------------------------------------

class Defs:
    """top-level item definitions of one tree: the root and every referenced definition get a name"""

    def __init__(self, pad=0):
        self.out = []
        self.n = 0
        self.pad = pad     # 0: <typeRef>number</typeRef>; 1: blanks around the name; 2: the name on a line of its own (pretty-printed XML)

    def tref(self, name, builtin=False):
        # only the names of built-in types are padded: the code under test trims those itself (`type_ref_to_feel_type`); whether a padded
        # reference to another item definition names that definition is not said anywhere (the unchanged tree does not find it)
        pad = self.pad if builtin else 0
        return "<typeRef>%s</typeRef>" % ({0: "%s", 1: " %s  ", 2: "\n      %s\n    "}[pad] % name)

    def fresh(self):
        self.n += 1
        return "tRef%d" % self.n

    def body(self, n, tag, name):
        """XML of one itemDefinition / itemComponent element for node n"""
        attrs = ' name="%s"%s' % (X.esc(name), ' isCollection="true"' if n["coll"] else "")
        inner = ""
        if n["k"] == "simple":
            inner += self.tref(n["type"], builtin=True)
        elif n["k"] == "ref":
            target = self.fresh()
            self.define(n["to"], target)
            inner += self.tref(target)
        if n.get("av"):
            inner += "<allowedValues><text>%s</text></allowedValues>" % X.esc(av_text(n["av"]))
        if n["k"] == "comp":
            for cname, c in n["comps"]:
                inner += self.body(c, "itemComponent", cname)
        return "<%s%s>%s</%s>" % (tag, attrs, inner, tag)

    def define(self, n, name):
        self.out.append(self.body(n, "itemDefinition", name))


def type_ref_of(tree, defs, name="tRoot", direct_ok=True):
    """typeRef text for a variable of this tree (defining what is needed); plain built-in types are used directly"""
    if direct_ok and tree["k"] == "simple" and not tree["av"] and not tree["coll"]:
        return tree["type"]
    defs.define(tree, name)
    return name


INPUT_NAME = "In Val"
OUT_TAGS = ["decision", "bkm", "service"]


def multi_keys(v):
    """entry names of a context value that can be produced by a decision service with one output decision per entry (>= 2 entries)"""
    if not (isinstance(v, dict) and "c" in v and len(v["c"]) >= 2):
        return None
    keys = [k for k, _ in v["c"]]
    if len(set(keys)) != len(keys) or any(k in ("Echo", "Id", "Multi", INPUT_NAME) or k.startswith(("Out ", "Raw ", "Svc ", "Inv ", "Call ")) for k in keys):
        return None
    return keys


def model_xml(tree, outputs, direct=True, multi=None, pad=0):
    """One model per tree:
      inputData `In Val` : T  -> decision `Echo` = In Val                       (what reaches the logic)
      BKM `Id`(p) : T = p                                                       (typed BKM result, value supplied as p)
      per output value i: decision `Out i` : T = literal; decision `Raw i` (untyped) = literal; service `Svc i` : T -> Raw i"""
    defs = Defs(pad)
    tr = type_ref_of(tree, defs, direct_ok=direct)
    els = []
    els.append('<inputData name="%s" id="_in"><variable name="%s" typeRef="%s"/></inputData>' % (INPUT_NAME, INPUT_NAME, tr))
    els.append('<decision name="Echo" id="_echo"><variable name="Echo"/><informationRequirement><requiredInput href="#_in"/>'
               '</informationRequirement>%s</decision>' % X.literal_expression(INPUT_NAME))
    els.append('<businessKnowledgeModel name="Id" id="_id"><variable name="Id" typeRef="%s"/><encapsulatedLogic><formalParameter name="p"/>%s'
               '</encapsulatedLogic></businessKnowledgeModel>' % (tr, X.literal_expression("p")))
    for i, v in enumerate(outputs):
        text = feel_text(v)
        els.append('<decision name="Out %d" id="_out%d"><variable name="Out %d" typeRef="%s"/>%s</decision>' % (i, i, i, tr, X.literal_expression(text)))
        els.append('<decision name="Raw %d" id="_raw%d"><variable name="Raw %d"/>%s</decision>' % (i, i, i, X.literal_expression(text)))
        els.append('<decisionService name="Svc %d" id="_svc%d"><variable name="Svc %d" typeRef="%s"/><outputDecision href="#_raw%d"/>'
                   '</decisionService>' % (i, i, i, tr, i))
        # the typed knowledge model reached through a boxed invocation and through a literal call from untyped decisions: the result is
        # coerced to Id's type on the way, however Id is invoked
        els.append('<decision name="Inv %d" id="_inv%d"><variable name="Inv %d"/><knowledgeRequirement><requiredKnowledge href="#_id"/>'
                   '</knowledgeRequirement><invocation>%s<binding><parameter name="p"/>%s</binding></invocation></decision>' % (
                       i, i, i, X.literal_expression("Id"), X.literal_expression(text)))
        els.append('<decision name="Call %d" id="_call%d"><variable name="Call %d"/><knowledgeRequirement><requiredKnowledge href="#_id"/>'
                   '</knowledgeRequirement>%s</decision>' % (i, i, i, X.literal_expression("Id(%s)" % text)))
    # the typed knowledge model whose logic is NOT a literal expression - a decision table (one rule that always matches), a boxed context
    # (result in its last entry) - reached through a literal call from an untyped decision and by name: the declared type of the
    # function's result applies whatever kind of logic produces the value
    for i, v in enumerate(outputs):
        text = feel_text(v)
        table = X.decision_table({"hit_policy": "UNIQUE", "inputs": [{"expr": "q"}], "outputs": [{"name": None}], "rules": [{"in": ["-"], "out": [text]}]})
        els.append('<businessKnowledgeModel name="Tbl %d" id="_tbl%d"><variable name="Tbl %d" typeRef="%s"/><encapsulatedLogic>'
                   '<formalParameter name="q"/>%s</encapsulatedLogic></businessKnowledgeModel>' % (i, i, i, tr, table))
        boxed = '<context><contextEntry><variable name="w"/>%s</contextEntry><contextEntry>%s</contextEntry></context>' % (
            X.literal_expression(text), X.literal_expression("w"))
        els.append('<businessKnowledgeModel name="Box %d" id="_box%d"><variable name="Box %d" typeRef="%s"/><encapsulatedLogic>%s'
                   '</encapsulatedLogic></businessKnowledgeModel>' % (i, i, i, tr, boxed))
        els.append('<decision name="TCall %d" id="_tcall%d"><variable name="TCall %d"/><knowledgeRequirement><requiredKnowledge href="#_tbl%d"/>'
                   '</knowledgeRequirement>%s</decision>' % (i, i, i, i, X.literal_expression("Tbl %d(1)" % i)))
        els.append('<decision name="BCall %d" id="_bcall%d"><variable name="BCall %d"/><knowledgeRequirement><requiredKnowledge href="#_box%d"/>'
                   '</knowledgeRequirement>%s</decision>' % (i, i, i, i, X.literal_expression("Box %d()" % i)))
    if multi is not None:
        # decision service `Multi` : T with one (untyped) output decision per entry of the context value outputs[multi]: its result is the
        # context of the output decisions' results, coerced to T like any other result
        entries = outputs[multi]["c"]
        for j, (k, x) in enumerate(entries):
            els.append('<decision name="%s" id="_mp%d"><variable name="%s"/>%s</decision>' % (X.esc(k), j, X.esc(k), X.literal_expression(feel_text(x))))
        els.append('<decisionService name="Multi" id="_multi"><variable name="Multi" typeRef="%s"/>%s</decisionService>' % (
            tr, "".join('<outputDecision href="#_mp%d"/>' % j for j in range(len(entries)))))
    return X.definitions("itemdefs", defs.out + els)


def invocable_names(n_outputs, keys=None):
    """order in which the driver lists them: decisions in document order, BKMs, services"""
    names = ["Echo"]
    for i in range(n_outputs):
        names += ["Out %d" % i, "Raw %d" % i, "Inv %d" % i, "Call %d" % i]
    for i in range(n_outputs):
        names += ["TCall %d" % i, "BCall %d" % i]
    names += list(keys or [])
    names.append("Id")
    for i in range(n_outputs):
        names += ["Tbl %d" % i, "Box %d" % i]
    names += ["Svc %d" % i for i in range(n_outputs)]
    if keys:
        names.append("Multi")
    return names
