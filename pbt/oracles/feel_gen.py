"""Typed, grammar-directed generator of core-fragment FEEL expressions (see feel.py for the AST).

Kinds: ("num",) ("str",) ("bool",) ("null",) ("list", K) ("ctx", ((name, K), ...)) ("fn", (K...), K)
`gen_case(src, depth)` -> {"bindings": [[name, wire]...], "ast": tree}."""
from decimal import Decimal

NUM, STR, BOOL, NULL = ("num",), ("str",), ("bool",), ("null",)
SIMPLE = [NUM, STR, BOOL]
VARS = ["x", "y", "z", "u", "v", "w"]
PARAMS = ["p", "q", "r"]
KEYS = ["k", "m", "g", "h"]
NUM_LITS = ["0", "1", "2", "3", "5", "10", "0.5", "1.5", "2.50", "100", "7"]
STR_LITS = ["", "a", "b", "ab", "abc", "B", "ä", "foo bar"]


class G:
    def __init__(self, src, wrong=0.12, dup_keys=0.0):
        self.src = src
        self.wrong = wrong
        self.dup_keys = dup_keys   # probability that a context literal repeats one of its keys (an error case: only for checks without a value oracle)
        self.fresh = 0
        self.in_between = 0      # the parser rejects a `between` nested anywhere inside a `between` operand (C06 finding): excluded
        self.excluded_nested_between = 0

    # ---------------- kinds and values
    def kind(self, depth=2):
        s = self.src
        c = s.weighted([(5, "num"), (3, "str"), (3, "bool"), (3 if depth > 0 else 0, "list"), (2 if depth > 0 else 0, "ctx"), (1, "null")])
        if c == "num":
            return NUM
        if c == "str":
            return STR
        if c == "bool":
            return BOOL
        if c == "null":
            return NULL
        if c == "list":
            return ("list", self.kind(depth - 1))
        return ("ctx", tuple((k, self.kind(depth - 1)) for k in s.sample(KEYS, s.int(1, 4))))

    def value(self, k):
        """wire value of kind k"""
        s = self.src
        if k == NUM:
            t = s.weighted([(6, "lit"), (2, "neg"), (2, "frac")])
            if t == "lit":
                return {"n": s.choice(NUM_LITS)}
            if t == "neg":
                return {"n": "-" + s.choice(NUM_LITS[1:])}
            return {"n": "%d.%s" % (s.int(0, 20), s.digits(s.int(1, 3)))}
        if k == STR:
            return {"s": s.choice(STR_LITS)}
        if k == BOOL:
            return s.bool()
        if k == NULL:
            return None
        if k[0] == "list":
            n = s.weighted([(2, 0), (3, 1), (4, 2), (4, 3), (2, 4), (1, 5)])
            items = [self.value(k[1]) for _ in range(n)]
            if items and s.bool(0.1):
                items[s.int(0, len(items) - 1)] = None
            return {"l": items}
        if k[0] == "ctx":
            return {"c": [[name, self.value(kk)] for name, kk in k[1]]}
        raise ValueError(k)

    # ---------------- expressions
    def leaf(self, k, env):
        s = self.src
        names = [n for n, kk in env.items() if kk == k]
        if names and s.bool(0.6):
            return ["name", s.choice(names)]
        if k == NUM:
            if s.bool(0.15):
                return ["neg", ["num", s.choice(NUM_LITS[1:])]]
            return ["num", s.choice(NUM_LITS)]
        if k == STR:
            return ["str", s.choice(STR_LITS)]
        if k == BOOL:
            return ["bool", s.bool()]
        if k == NULL:
            return ["null"]
        if k[0] == "list":
            return ["list", [self.leaf(k[1], env) for _ in range(s.weighted([(2, 0), (3, 1), (4, 2), (3, 3)]))]]
        if k[0] == "ctx":
            return ["ctx", [[name, self.leaf(kk, env)] for name, kk in k[1]]]
        if k[0] == "fn":
            return self.fn_literal(k, env, 0)
        raise ValueError(k)

    def other_kind(self, k):
        c = [x for x in (NUM, STR, BOOL, NULL, ("list", NUM)) if x != k]
        return self.src.choice(c)

    def expr(self, k, depth, env):
        """expression whose intended result kind is k"""
        s = self.src
        if depth > 0 and s.bool(self.wrong):
            k = self.other_kind(k)   # deliberate wrong-kind splice: exercises the null-as-error paths
        if depth <= 0:
            return self.leaf(k, env)
        if k == NUM:
            prods = [(3, self.p_arith), (1, self.p_neg), (2, self.p_if), (2, self.p_path), (2, self.p_index), (2, self.p_call),
                     (2, self.p_count), (1, self.p_sum), (1, self.p_strlen), (2, self.p_ctxpath), (1, self.p_leaf),
                     (1, self.p_closure), (1, self.p_closure_loop), (1, self.p_shadow_builtin), (1, self.p_recursion), (2, self.p_hetero), (2, self.p_deep), (2, self.p_ctxfresh)]
        elif k == STR:
            prods = [(3, self.p_concat), (2, self.p_if), (2, self.p_path), (2, self.p_index), (2, self.p_call), (2, self.p_ctxpath),
                     (1, self.p_leaf)]
        elif k == BOOL:
            prods = [(3, self.p_cmp), (2, self.p_eq), (3, self.p_logic), (2, self.p_between), (3, self.p_in), (3, self.p_quant),
                     (1, self.p_if), (1, self.p_path), (1, self.p_call), (1, self.p_leaf)]
        elif k == NULL:
            prods = [(2, self.p_leaf), (1, self.p_if), (1, self.p_missing)]
        elif k[0] == "list":
            prods = [(3, self.p_listlit), (4, self.p_for), (4, self.p_filter), (2, self.p_listpath), (1, self.p_if), (1, self.p_leaf),
                     (1, self.p_call), (1, self.p_arity_shadow), (1, self.p_item_key)]
        elif k[0] == "ctx":
            prods = [(4, self.p_ctxlit), (1, self.p_if), (2, self.p_index), (1, self.p_leaf)]
        elif k[0] == "fn":
            prods = [(1, lambda kk, d, e: self.fn_literal(kk, e, d))]
        else:
            raise ValueError(k)
        f = s.weighted(prods)
        return f(k, depth, env)

    def p_leaf(self, k, d, env):
        return self.leaf(k, env)

    def p_arith(self, k, d, env):
        op = self.src.weighted([(4, "+"), (3, "-"), (3, "*"), (2, "/"), (1, "**")])
        if op == "**":
            return ["arith", "**", ["num", self.src.choice(["2", "3", "10", "1.5"])], ["num", self.src.choice(["0", "1", "2", "3"])]]
        return ["arith", op, self.expr(NUM, d - 1, env), self.expr(NUM, d - 1, env)]

    def p_concat(self, k, d, env):
        return ["arith", "+", self.expr(STR, d - 1, env), self.expr(STR, d - 1, env)]

    def p_neg(self, k, d, env):
        return ["neg", self.expr(NUM, d - 1, env)]

    def p_if(self, k, d, env):
        c = self.expr(BOOL, d - 1, env) if self.src.bool(0.85) else ["null"]
        return ["if", c, self.expr(k, d - 1, env), self.expr(k, d - 1, env)]

    def p_cmp(self, k, d, env):
        op = self.src.choice(["<", "<=", ">", ">="])
        kk = self.src.weighted([(3, NUM), (1, STR)])
        return ["cmp", op, self.expr(kk, d - 1, env), self.expr(kk, d - 1, env)]

    def p_eq(self, k, d, env):
        op = self.src.choice(["=", "!="])
        kk = self.src.weighted([(3, NUM), (2, STR), (1, BOOL), (2, ("list", NUM)), (1, ("ctx", (("k", NUM),)))])
        return ["cmp", op, self.expr(kk, d - 1, env), self.expr(kk, d - 1, env)]

    def p_logic(self, k, d, env):
        op = self.src.choice(["and", "or"])
        if self.in_between and op == "and":
            self.excluded_nested_between += 1   # an `and` inside a between operand hits the same parser limitation
            op = "or"
        return [op, self.expr(BOOL, d - 1, env), self.expr(BOOL, d - 1, env)]

    def p_between(self, k, d, env):
        if self.in_between:
            self.excluded_nested_between += 1
            return self.p_cmp(k, d, env)
        kk = self.src.weighted([(3, NUM), (1, STR)])
        self.in_between += 1
        try:
            return ["between", self.expr(kk, d - 1, env), self.expr(kk, d - 1, env), self.expr(kk, d - 1, env)]
        finally:
            self.in_between -= 1

    def simple_end(self, kk, env):
        """range end points / unary test operands: literal or bound name only"""
        names = [n for n, x in env.items() if x == kk and n not in VARS and n not in PARAMS]
        if names and self.src.bool(0.4):
            return ["name", self.src.choice(names)]
        return ["num", self.src.choice(NUM_LITS)] if kk == NUM else ["str", self.src.choice(STR_LITS)]

    def p_in(self, k, d, env):
        s = self.src
        kk = s.weighted([(3, NUM), (1, STR)])
        x = self.expr(kk, d - 1, env)
        tests = []
        for _ in range(s.weighted([(3, 1), (2, 2), (1, 3)])):
            t = s.weighted([(3, "rng"), (2, "cmp"), (2, "e"), (1, "list")])
            if t == "rng":
                tests.append(["t_rng", s.bool(), self.simple_end(kk, env), self.simple_end(kk, env), s.bool()])
            elif t == "cmp":
                tests.append(["t_cmp", s.choice(["<", "<=", ">", ">="]), self.simple_end(kk, env)])
            elif t == "e":
                tests.append(["t_e", self.expr(kk, max(0, d - 2), env)])
            else:
                tests.append(["t_e", self.expr(("list", kk), max(0, d - 2), env)])
        return ["in", x, tests]

    def var(self, env):
        free = [v for v in VARS if v not in env]
        if free:
            return free[0]
        self.fresh += 1
        return "v%d" % self.fresh

    def domain(self, d, env):
        """returns (domain node, element kind)"""
        s = self.src
        if s.bool(0.35):
            a, b = s.int(-2, 4), s.int(-2, 4)
            if s.bool(0.5):
                b = a + s.int(-3, 3)
            ea = ["num", str(a)] if a >= 0 else ["neg", ["num", str(-a)]]
            eb = ["num", str(b)] if b >= 0 else ["neg", ["num", str(-b)]]
            return ["dr", ea, eb], NUM
        kk = s.weighted([(4, NUM), (2, STR), (1, BOOL), (1, ("ctx", (("k", NUM), ("m", STR))))])
        self.dom_depth = getattr(self, "dom_depth", 0) + 1
        try:
            return ["dl", self.expr(("list", kk), d - 1, env)], kk
        finally:
            self.dom_depth -= 1

    def p_for(self, k, d, env):
        s = self.src
        n = s.weighted([(5, 1), (3, 2), (1, 3)])
        if getattr(self, "dom_depth", 0) > 0:
            # a `for` that is itself the domain of an enclosing iteration has ONE iteration context: the product of the domains of one
            # loop stays in the hundreds (the statement of C05 grants "a few thousand"; the code under test copies the results so far
            # for `partial` in every iteration, so tens of thousands of iterations with failing bodies take tens of seconds)
            n = 1
        ctxs, env2 = [], dict(env)
        for _ in range(n):
            v = self.var(env2)
            dom, kk = self.domain(d, env)   # domains see the outer environment only
            if s.bool(0.12):
                dom = ["dl", ["list", []]]   # empty domain next to non-empty ones
            ctxs.append([v, dom])
            env2[v] = kk
        if s.bool(0.15):
            body = ["call", ["name", "count"], [["name", "partial"]]]
            if k[1] != NUM:
                k = ("list", NUM)
        else:
            body = self.expr(k[1], d - 1, env2)
        return ["for", ctxs, body]

    def p_quant(self, k, d, env):
        s = self.src
        n = s.weighted([(5, 1), (3, 2), (1, 3)])
        ctxs, env2 = [], dict(env)
        for _ in range(n):
            v = self.var(env2)
            kk = s.weighted([(4, NUM), (2, STR), (1, BOOL)])
            dom = self.expr(("list", kk), d - 1, env)
            if s.bool(0.1):
                dom = ["list", []]
            ctxs.append([v, dom])
            env2[v] = kk
        body = self.expr(BOOL, d - 1, env2) if s.bool(0.9) else ["null"]
        return [s.choice(["some", "every"]), ctxs, body]

    def p_listlit(self, k, d, env):
        n = self.src.weighted([(1, 0), (3, 1), (4, 2), (3, 3), (1, 4)])
        return ["list", [self.expr(k[1], d - 1, env) for _ in range(n)]]

    def p_filter(self, k, d, env):
        s = self.src
        ek = k[1]
        subj = self.expr(("list", ek), d - 1, env)
        env2 = dict(env)
        env2["item"] = ek
        if ek[0] == "ctx":
            for name, kk in ek[1]:
                env2[name] = kk
        pred = self.expr(BOOL, d - 1, env2)
        if not mentions_item(pred, ek):
            # force a predicate that depends on the item
            if ek == NUM:
                pred = ["cmp", s.choice(["<", ">", "<=", ">=", "=", "!="]), ["name", "item"], self.expr(NUM, max(0, d - 2), env)]
            elif ek == STR:
                pred = ["cmp", s.choice(["=", "!=", "<"]), ["name", "item"], self.expr(STR, 0, env)]
            elif ek[0] == "ctx":
                name, kk = ek[1][0]
                pred = ["cmp", "=", ["name", name], self.leaf(kk, env)] if kk in SIMPLE else ["cmp", "=", ["name", "item"], ["name", "item"]]
            else:
                pred = ["cmp", "=", ["name", "item"], ["name", "item"]]
        return ["filter", subj, pred]

    def index_expr(self, d, env):
        s = self.src
        i = s.int(-4, 5)
        lit = ["num", str(i)] if i >= 0 else ["neg", ["num", str(-i)]]
        if s.bool(0.2):
            names = [n for n, kk in env.items() if kk == NUM and n not in ("item",) and n not in KEYS]
            if names:
                lit = ["name", s.choice(names)]
        if s.bool(0.15):
            lit = ["arith", "+", lit, ["num", "1"]]
        return ["idx", lit]

    def p_index(self, k, d, env):
        """filter by numeric index: singleton result of kind k"""
        return ["filter", self.expr(("list", k), d - 1, env), self.index_expr(d, env)]

    def p_path(self, k, d, env):
        """path on a context having an entry of kind k"""
        s = self.src
        key = s.choice(KEYS)
        others = [(x, self.kind(0)) for x in s.sample([q for q in KEYS if q != key], s.int(0, 2))]
        ck = ("ctx", tuple(sorted([(key, k)] + others)))
        if s.bool(0.1):
            return ["path", self.expr(ck, d - 1, env), s.choice([q for q in KEYS if q != key and q not in dict(others)] or ["zz"])]
        return ["path", self.expr(ck, d - 1, env), key]

    def p_item_key(self, k, d, env):
        """a filter whose elements are contexts with an entry named `item`: there `item` in the filter expression is that entry, not the
        element; the subject is a list of such contexts or one such context (filtered like a singleton list). Result: list of numbers."""
        if k != ("list", NUM):
            return self.p_filter(k, d, env)
        s = self.src
        def elem():
            entries = [["item", self.leaf(NUM, env)], ["g", self.leaf(NUM, env)]]
            if s.bool(0.3):
                entries.reverse()
            return ["ctx", entries]
        subj = elem() if s.bool(0.4) else ["list", [elem() for _ in range(s.int(1, 3))]]
        left = ["name", "item"] if s.bool(0.8) else ["path", ["name", "item"], s.choice(["item", "g"])]
        pred = ["cmp", s.choice(["<", ">", "<=", ">=", "=", "!="]), left, self.leaf(NUM, env)]
        return ["path", ["filter", subj, pred], "g"]

    def p_listpath(self, k, d, env):
        """path over a list of contexts"""
        key = self.src.choice(KEYS)
        ck = ("ctx", ((key, k[1]),))
        return ["path", self.expr(("list", ck), d - 1, env), key]

    def p_ctxlit(self, k, d, env):
        env2 = dict(env)
        entries = []
        for name, kk in k[1]:
            entries.append([name, self.expr(kk, d - 1, env2)])
            env2[name] = kk   # later entries see earlier ones
        if entries and self.dup_keys and self.src.bool(self.dup_keys):
            name, kk = self.src.choice(list(k[1]))
            entries.insert(self.src.int(1, len(entries)), [name, self.expr(kk, 0, env2)])
        return ["ctx", entries]

    def p_ctxpath(self, k, d, env):
        """{k: e1, m: <uses k>}.m"""
        k1 = self.src.choice([NUM, STR])
        e1 = self.expr(k1, d - 1, env)
        env2 = dict(env)
        env2["k"] = k1
        e2 = self.expr(k, d - 1, env2)
        return ["path", ["ctx", [["k", e1], ["m", e2]]], "m"]

    def p_ctxfresh(self, k, d, env):
        """{q7: e1, m: q7 <op> e2}.m with an entry name q7 that nothing else binds: only the context literal itself makes q7 a known name for
        the later entry (the second text writes the keys as string literals)"""
        s = self.src
        e1 = self.expr(NUM, d - 1, env)
        e2 = self.expr(NUM, d - 1, env) if s.bool(0.4) else ["num", s.choice(NUM_LITS)]
        op = s.choice(["+", "-", "*", "/"])
        use = ["arith", op, ["name", "q7"], e2]
        if s.bool(0.3):
            use = ["if", ["cmp", ">", ["name", "q7"], ["num", "1"]], ["name", "q7"], use]
        # (the entry that is read from outside is `m`, a name the scope knows: after the literal is closed its own entry names are unknown
        # again, and an unknown name after the dot would swallow the words that follow it)
        return ["path", ["ctx", [["q7", e1], ["m", use]]], "m"]

    def p_missing(self, k, d, env):
        return ["path", self.expr(("ctx", (("k", NUM),)), d - 1, env), "zz"]

    def p_count(self, k, d, env):
        return ["call", ["name", "count"], [self.expr(("list", self.src.choice(SIMPLE)), d - 1, env)]]

    def p_sum(self, k, d, env):
        e = self.expr(("list", NUM), d - 1, env)
        if e == ["list", []]:
            e = ["list", [["num", "1"]]]
        return ["call", ["name", "sum"], [e]]

    def p_strlen(self, k, d, env):
        return ["call", ["name", "string length"], [self.expr(STR, d - 1, env)]]

    def p_arity_shadow(self, k, d, env):
        """[f(e), X] where f = function(X, q) X + q is called with too few arguments and X is also a name of the enclosing scope:
        the failed invocation is null and X afterwards still denotes the enclosing value"""
        names = [n for n, kk in env.items() if kk == k[1] and n not in KEYS and n not in ("item", "partial")]
        if not names or k[1] not in (NUM, STR):
            return self.p_listlit(k, d, env)
        x = self.src.choice(names)
        callee = ["fn", [[x, None], ["q", None]], ["arith", "+", ["name", x], ["name", "q"]]]
        call = ["call", callee, [self.expr(k[1], d - 1, env)]]
        tail = ["name", x] if self.src.bool(0.6) else ["arith", "+", ["name", x], ["name", x]]
        return ["list", [call, tail]]

    def p_shadow_builtin(self, k, d, env):
        """a context entry / iteration variable / parameter named like a built-in function (count, sum) holds a user-defined function
        (or a number) and is invoked: the nearest binding wins over the built-in"""
        s = self.src
        bn = s.choice(["count", "sum"])
        arg = self.expr(s.choice([NUM, NUM, ("list", NUM)]), d - 1, env)
        udf = ["fn", [["q", None]], ["arith", s.choice(["+", "*"]), ["name", "q"], ["num", "100"]]] if s.bool(0.8) else ["num", "7"]
        call = ["call", ["name", bn], [arg]]
        shape = s.choice(["ctx", "for", "param", "ctx-after"])
        if shape == "ctx":
            return ["path", ["ctx", [[bn, udf], ["m", call]]], "m"]
        if shape == "ctx-after":
            # the entry is defined AFTER its use: the use still sees the built-in
            return ["path", ["ctx", [["m", call], [bn, udf]]], "m"]
        if shape == "for":
            return ["filter", ["for", [[bn, ["dl", ["list", [udf]]]]], call], ["idx", ["num", "1"]]]
        return ["call", ["fn", [[bn, None]], call], [udf]]

    def p_hetero(self, k, d, env):
        """`hs` is bound to a list of contexts with DIFFERENT entry names (HETERO below): an entry name that only a later item has is
        used by path, inside a filter, in a loop and in a quantified expression, directly followed by an operator"""
        s = self.src
        hk = env.get("hs")
        if not (isinstance(hk, tuple) and hk and hk[0] == "hetero" and hk[1]):
            return self.p_leaf(k, d, env)
        key = s.choice(list(hk[1]))          # an entry name that some later item really has (an unknown name is not well-formed input)
        other = self.expr(NUM, d - 1, {n: kk for n, kk in env.items() if n != "hs"}) if s.bool(0.5) else ["num", s.choice(NUM_LITS)]
        op = s.choice(["*", "+", "-", "/"])
        # (not generated: `hs.key` over the whole list -- the SUT leaves out the items that lack the entry, the reference puts null there;
        # the DMN text says "list of e[i].key" and is read both ways)
        form = s.choice(["index-path", "filter", "for", "some"])
        hs = ["name", "hs"]
        if form == "index-path":
            return ["arith", op, ["path", ["filter", hs, ["idx", ["num", str(s.int(1, 4))]]], key], other]
        if form == "filter":
            return ["call", ["name", "count"], [["filter", hs, ["cmp", ">", ["arith", op, ["name", key], other], ["num", "5"]]]]]
        if form == "for":
            v = self.var(env)
            return ["call", ["name", "count"], [["for", [[v, ["dl", hs]]], ["arith", op, ["path", ["name", v], key], other]]]]
        v = self.var(env)
        return ["if", [s.choice(["some", "every"]), [[v, hs]], ["cmp", "=", ["arith", op, ["path", ["name", v], key], other], ["num", "1"]]],
                ["num", "1"], ["num", "0"]]

    def p_deep(self, k, d, env):
        """`ds` is bound to a list of contexts whose entry `n9` holds a context (entries d7, d8; in half of the cases one level further
        down, under `n8`); the names d7, d8, n8 occur nowhere else in the scope. The innermost entry is reached by path (from an indexed
        item, from a loop variable, inside a filter over the list) and is directly followed by an operator."""
        s = self.src
        dk = env.get("ds")
        if not (isinstance(dk, tuple) and dk and dk[0] == "deep"):
            return self.p_leaf(k, d, env)
        chain = list(dk[1])                    # e.g. ["n9", "d7"] or ["n9", "n8", "d7"]
        if s.bool(0.4):
            chain[-1] = "d8"
        other = self.expr(NUM, d - 1, {n: kk for n, kk in env.items() if n != "ds"}) if s.bool(0.4) else ["num", s.choice(NUM_LITS)]
        op = s.choice(["*", "+", "-", "/"])
        ds = ["name", "ds"]

        def down(head, names):
            for n in names:
                head = ["path", head, n]
            return head
        form = s.choice(["index-path", "filter", "for", "some"])
        if form == "index-path":
            return ["arith", op, down(["filter", ds, ["idx", ["num", str(s.int(1, 3))]]], chain), other]
        if form == "filter":
            return ["call", ["name", "count"], [["filter", ds, ["cmp", ">", ["arith", op, down(["name", chain[0]], chain[1:]), other], ["num", "5"]]]]]
        v = self.var(env)
        if form == "for":
            return ["call", ["name", "sum"], [["for", [[v, ["dl", ds]]], ["arith", op, down(["name", v], chain), other]]]]
        return ["if", [s.choice(["some", "every"]), [[v, ds]], ["cmp", "=", ["arith", op, down(["name", v], chain), other], ["num", "1"]]],
                ["num", "1"], ["num", "0"]]

    def p_recursion(self, k, d, env):
        """well-founded recursion by self-application: (function(sf, sn) sf(sf, sn))(function(sg, sn) if sn <= 0 then B else sn OP sg(sg, sn - 1), N)
        -- terminates only because the branch of `if` that is not taken is not evaluated"""
        s = self.src
        op = s.choice(["+", "*", "-"])
        base = ["num", s.choice(["0", "1", "2"])]
        n = ["num", s.choice(["0", "1", "2", "3", "4"])]
        rec = ["call", ["name", "sg"], [["name", "sg"], ["arith", "-", ["name", "sn"], ["num", "1"]]]]
        step = ["if", ["cmp", "<=", ["name", "sn"], ["num", "0"]], base, ["arith", op, ["name", "sn"], rec]]
        if s.bool(0.3):
            # the recursive call in the THEN branch instead
            step = ["if", ["cmp", ">", ["name", "sn"], ["num", "0"]], ["arith", op, ["name", "sn"], rec], base]
        worker = ["fn", [["sg", None], ["sn", None]], step]
        driver = ["fn", [["sf", None], ["sn", None]], ["call", ["name", "sf"], [["name", "sf"], ["name", "sn"]]]]
        return ["call", driver, [worker, n]]

    def p_closure(self, k, d, env):
        """{k: function(p) function(q) p + q, m: k(e1), g: m(e2)}.g  -- the inner function captures p lexically"""
        inner = ["fn", [["q", None]], ["arith", self.src.choice(["+", "-", "*"]), ["name", "p"], ["name", "q"]]]
        maker = ["fn", [["p", None]], inner]
        return ["path", ["ctx", [["k", maker], ["m", ["call", ["name", "k"], [self.expr(NUM, d - 1, env)]]],
                                 ["g", ["call", ["name", "m"], [self.expr(NUM, d - 1, env)]]]]], "g"]

    def p_closure_loop(self, k, d, env):
        """((for x in L return function(q) x + q)[i])(e): the function captures the loop variable"""
        v = self.var(env)
        fns = ["for", [[v, ["dl", self.expr(("list", NUM), d - 1, env)]]], ["fn", [["q", None]], ["arith", "+", ["name", v], ["name", "q"]]]]
        return ["call", ["filter", fns, self.index_expr(d, env)], [self.expr(NUM, d - 1, env)]]

    def fn_literal(self, k, env, d):
        """k = ("fn", paramkinds, resultkind)"""
        env2 = dict(env)
        params = []
        for i, pk in enumerate(k[1]):
            pname = PARAMS[i]
            ty = None
            if self.src.bool(0.25) and pk in (NUM, STR, BOOL):
                ty = {NUM: "number", STR: "string", BOOL: "boolean"}[pk]
            params.append([pname, ty])
            env2[pname] = pk
        return ["fn", params, self.expr(k[2], max(0, d - 1), env2)]

    def p_call(self, k, d, env):
        s = self.src
        fns = [n for n, kk in env.items() if kk[0] == "fn" and kk[2] == k]
        if fns and s.bool(0.5):
            name = s.choice(fns)
            fk = env[name]
            f = ["name", name]
        else:
            pk = tuple(s.choice(SIMPLE) for _ in range(s.int(0, 2)))
            fk = ("fn", pk, k)
            f = self.fn_literal(fk, env, d - 1)
        args = [self.expr(a, d - 1, env) for a in fk[1]]
        if fk[1] and s.bool(0.08):
            # too few arguments: the invocation is an error (null) and must leave everything around it untouched
            return ["call", f, args[:s.int(0, len(args) - 1)]]
        if fk[1] and s.bool(0.3):
            pnames = PARAMS[:len(fk[1])]
            pairs = [[n, a] for n, a in zip(pnames, args)]
            return ["calln", f, s.shuffle(pairs)]
        return ["call", f, args]

    # ---------------- whole case
    def case(self, depth):
        s = self.src
        env, bindings = {}, []
        names = ["a", "b", "c", "d", "e", "n", "s", "t", "xs", "ys", "cx", "cy"]
        for name in s.sample(names, s.int(3, 8)):
            k = self.kind(2)
            env[name] = k
            bindings.append([name, self.value(k)])
        for key in KEYS:
            # entry names used inside filters are bound at the bottom too: every name an expression can mention is
            # known to the parsing scope whatever the (possibly wrong-kind) filter subject is
            # never a number: `list[k]` with an outer numeric k would be an index by one reading of the spec and a
            # per-item test by the other
            kk = s.choice([STR, BOOL, NULL])
            env.setdefault(key, kk)
            bindings.append([key, self.value(kk)])
        if s.bool(0.4):
            # a bound function value (closure over nothing), given as a FEEL literal
            fk = ("fn", (NUM,), NUM)
            bindings.append(["f", {"feel": "function(p) p * 2 + 1"}])
            env["f"] = fk
        if s.bool(0.3):
            # a list of contexts whose items have different entry names; the names u2, u3, w5 occur nowhere else and never in the first item
            items = [{"c": [["u1", {"n": s.choice(NUM_LITS)}]]}]
            for _ in range(s.int(1, 3)):
                ks = s.sample(["u1", "u2", "u3", "w5"], s.int(1, 3))
                items.append({"c": [[kk, {"n": s.choice(NUM_LITS)}] for kk in sorted(ks)]})
            bindings.append(["hs", {"l": items}])
            later = sorted({kk for it in items[1:] for kk, _ in it["c"]} - {"u1"})
            env["hs"] = ("hetero", tuple(later))
        if s.bool(0.3):
            # a list of contexts with a context two or three levels below the item; the names n8, d7, d8 occur nowhere else
            three = s.bool(0.5)
            items = []
            for _ in range(s.int(1, 3)):
                inner = {"c": [["d7", {"n": s.choice(NUM_LITS)}], ["d8", {"n": s.choice(NUM_LITS)}]]}
                if three:
                    inner = {"c": [["n8", inner]]}
                items.append({"c": [["u1", {"n": s.choice(NUM_LITS)}], ["n9", inner]]})
            bindings.append(["ds", {"l": items}])
            env["ds"] = ("deep", ("n9", "n8", "d7") if three else ("n9", "d7"))
        if s.bool(0.1):
            # a name of the input context coincides with a built-in function: it shadows the built-in
            if s.bool(0.7):
                bindings.append([s.choice(["count", "sum"]), {"feel": "function(p) p * 2 + 1"}])
            else:
                bindings.append([s.choice(["count", "sum"]), {"n": "5"}])
        k = self.kind(2)
        ast = self.expr(k, depth, env)
        return {"bindings": bindings, "ast": ast}


def mentions_item(pred, ek):
    names = {"item"} | ({n for n, _ in ek[1]} if ek[0] == "ctx" else set())
    found = []

    def walk(x):
        if isinstance(x, list):
            if len(x) == 2 and x[0] == "name" and x[1] in names:
                found.append(1)
            for y in x:
                walk(y)
    walk(pred)
    return bool(found)


def gen_case(src, depth=3):
    return G(src).case(depth)


def wire_to_ref(w):
    """binding wire value -> reference value"""
    if w is None or isinstance(w, bool):
        return w
    if "n" in w:
        return Decimal(w["n"])
    if "s" in w:
        return w["s"]
    if "l" in w:
        return [wire_to_ref(x) for x in w["l"]]
    if "c" in w:
        return {k: wire_to_ref(v) for k, v in w["c"]}
    if "feel" in w:
        from . import feel as F
        if w["feel"] == "function(p) p * 2 + 1":
            body = ["arith", "+", ["arith", "*", ["name", "p"], ["num", "2"]], ["num", "1"]]
            return F.Closure([["p", None]], body, F.Env([]))
    raise ValueError(w)
