"""Calendar arithmetic and the reference lexical grammar of FEEL temporal literals (imports nothing from the SUT).

Calendar: proleptic Gregorian with astronomical year numbering (a year 0 exists and is a leap year; this is the
only numbering under which the SUT's own `date(0, 1, 1)` is meaningful, and it is ISO 8601 / XSD 1.1 / chrono).
Day numbers are exact Python integers for any year; `selftest()` cross-checks them against `datetime` in 1..9999.

Grammar: XML Schema Part 2 lexical forms of date / time / dateTime / dayTimeDuration / yearMonthDuration as FEEL
uses them (DMN 10.3.2.3.4-8, 10.3.4.1), restricted/extended exactly as property C14 states: year range
+-999999999, no hour 24, minute/second below 60, offsets `(+|-)hh:mm[:ss]` with hh <= 14, `@Zone` suffix.
`parse_*` return ("ok", value) | ("bad", reason) | ("unspec", reason): `unspec` marks texts on which XSD/FEEL are
silent or disagree between versions (year 0000, time zone on a date, lower-case z, more than 9 fraction digits,
zone names known to one tz database only, durations mixing year-month and day-time fields, ...): nothing is asserted
about them."""
import re
from datetime import date as _pydate

from . import temporal_zones as zones

NS = 1_000_000_000
NS_MIN = 60 * NS
NS_HOUR = 3600 * NS
NS_DAY = 86400 * NS
MAX_YEAR = 999_999_999


# ------------------------------------------------------------------------------------------------
# calendar
# ------------------------------------------------------------------------------------------------

def is_leap(y):
    return y % 4 == 0 and (y % 100 != 0 or y % 400 == 0)


def dim(y, m):
    """days in month; None for a month outside 1..12"""
    if m in (1, 3, 5, 7, 8, 10, 12):
        return 31
    if m in (4, 6, 9, 11):
        return 30
    if m == 2:
        return 29 if is_leap(y) else 28
    return None


def valid_ymd(y, m, d):
    n = dim(y, m)
    return n is not None and 1 <= d <= n


def days_from_civil(y, m, d):
    """days since 1970-01-01 (negative before), any integer year."""
    if m <= 2:
        y -= 1
    era = y // 400                      # floor division: correct for negative years
    yoe = y - era * 400                 # 0..399
    mp = (m + 9) % 12                   # March = 0
    doy = (153 * mp + 2) // 5 + d - 1
    doe = yoe * 365 + yoe // 4 - yoe // 100 + doy
    return era * 146097 + doe - 719468


def civil_from_days(z):
    z += 719468
    era = z // 146097
    doe = z - era * 146097
    yoe = (doe - doe // 1460 + doe // 36524 - doe // 146096) // 365
    y = yoe + era * 400
    doy = doe - (365 * yoe + yoe // 4 - yoe // 100)
    mp = (5 * doy + 2) // 153
    d = doy - (153 * mp + 2) // 5 + 1
    m = mp + 3 if mp < 10 else mp - 9
    if m <= 2:
        y += 1
    return y, m, d


def weekday(y, m, d):
    """1 = Monday .. 7 = Sunday (1970-01-01 was a Thursday)."""
    return (days_from_civil(y, m, d) + 3) % 7 + 1


def weekday_by_counting(y, m, d):
    """Second, independent derivation: count days from 2000-01-01 (a Saturday) using only is_leap/dim."""
    n = 0
    if y >= 2000:
        full, rest = divmod(y - 2000, 400)
        n += full * 146097
        for yy in range(2000, 2000 + rest):
            n += 366 if is_leap(yy) else 365
    else:
        full, rest = divmod(2000 - y, 400)
        n -= full * 146097
        for yy in range(2000 - rest, 2000):
            n -= 366 if is_leap(yy) else 365
    for mm in range(1, m):
        n += dim(y, mm)
    n += d - 1
    return (n + 5) % 7 + 1


def selftest():
    """Cross-check against datetime inside 1..9999 and the two weekday derivations against each other outside."""
    base = _pydate(1970, 1, 1).toordinal()
    n = _pydate(1, 1, 1).toordinal()
    end = _pydate(9999, 12, 31).toordinal()
    while n <= end:
        dt = _pydate.fromordinal(n)
        z = n - base
        assert days_from_civil(dt.year, dt.month, dt.day) == z, dt
        assert civil_from_days(z) == (dt.year, dt.month, dt.day), dt
        assert weekday(dt.year, dt.month, dt.day) == dt.isoweekday(), dt
        if n % 23 == 0:
            assert weekday_by_counting(dt.year, dt.month, dt.day) == dt.isoweekday(), dt
        n += 89
    for y in (-999999999, -262145, -401, -400, -101, -100, -5, -4, -1, 0, 1, 10000, 262144, 999999996, 999999999):
        for (m, d) in ((1, 1), (2, 28), (3, 1), (12, 31)):
            z = days_from_civil(y, m, d)
            assert civil_from_days(z) == (y, m, d)
            assert weekday(y, m, d) == weekday_by_counting(y, m, d)
        assert days_from_civil(y, 12, 31) - days_from_civil(y, 1, 1) == (365 if is_leap(y) else 364)
        assert days_from_civil(y + 1, 1, 1) - days_from_civil(y, 12, 31) == 1
    return True


def months_between(fr, to):
    """Whole months from date `fr` to date `to` ((y, m, d) triples), sign-symmetric."""
    if tuple(to) >= tuple(fr):
        n = 12 * (to[0] - fr[0]) + (to[1] - fr[1])
        if to[2] < fr[2]:
            n -= 1
        return n
    return -months_between(to, fr)


def tod_ns(h, mi, s, ns):
    return h * NS_HOUR + mi * NS_MIN + s * NS + ns


def instant_ns(y, m, d, h, mi, s, ns, offset_seconds):
    """nanoseconds since 1970-01-01T00:00:00Z of local fields at the given UTC offset."""
    return days_from_civil(y, m, d) * NS_DAY + tod_ns(h, mi, s, ns) - offset_seconds * NS


def fields_from_instant(t_ns, offset_seconds):
    """(y, m, d, h, mi, s, ns) of the instant seen at the given UTC offset."""
    loc = t_ns + offset_seconds * NS
    days, rem = divmod(loc, NS_DAY)
    y, m, d = civil_from_days(days)
    h, rem = divmod(rem, NS_HOUR)
    mi, rem = divmod(rem, NS_MIN)
    s, ns = divmod(rem, NS)
    return y, m, d, h, mi, s, ns


# ------------------------------------------------------------------------------------------------
# formatting of reference literals
# ------------------------------------------------------------------------------------------------

def fmt_year(y):
    return ("-" if y < 0 else "") + "%04d" % abs(y)


def fmt_date(y, m, d):
    return "%s-%02d-%02d" % (fmt_year(y), m, d)


def fmt_frac(ns, digits=None):
    """'' for zero nanoseconds and digits None; otherwise '.' + digits (minimal, or exactly `digits` of them)."""
    if digits is None:
        if ns == 0:
            return ""
        return "." + ("%09d" % ns).rstrip("0")
    if digits == 0:
        return ""
    return "." + ("%09d" % ns)[:digits]


def fmt_offset(secs, force_seconds=False):
    sign = "-" if secs < 0 else "+"
    a = abs(secs)
    h, r = divmod(a, 3600)
    mi, s = divmod(r, 60)
    if s or force_seconds:
        return "%s%02d:%02d:%02d" % (sign, h, mi, s)
    return "%s%02d:%02d" % (sign, h, mi)


def fmt_zone(z):
    """z: None (local) | ["Z"] | ["off", seconds] | ["zone", name]"""
    if z is None:
        return ""
    if z[0] == "Z":
        return "Z"
    if z[0] == "off":
        return fmt_offset(z[1])
    return "@" + z[1]


def fmt_time(h, mi, s, ns=0, z=None, digits=None):
    return "%02d:%02d:%02d%s%s" % (h, mi, s, fmt_frac(ns, digits), fmt_zone(z))


def fmt_dtd(total_ns):
    """Reference normalised text of a days-and-time duration."""
    sign = "-" if total_ns < 0 else ""
    a = abs(total_ns)
    d, a = divmod(a, NS_DAY)
    h, a = divmod(a, NS_HOUR)
    mi, a = divmod(a, NS_MIN)
    s, ns = divmod(a, NS)
    out = sign + "P"
    if d:
        out += "%dD" % d
    t = ""
    if h:
        t += "%dH" % h
    if mi:
        t += "%dM" % mi
    if s or ns:
        t += "%d%sS" % (s, fmt_frac(ns))
    if t:
        out += "T" + t
    if not d and not t:
        return "PT0S"
    return out


def fmt_ymd(months):
    sign = "-" if months < 0 else ""
    y, m = divmod(abs(months), 12)
    if not y and not m:
        return "P0M"
    return sign + "P" + ("%dY" % y if y else "") + ("%dM" % m if m else "")


# ------------------------------------------------------------------------------------------------
# reference grammar
# ------------------------------------------------------------------------------------------------

RE_DATE = re.compile(r"^(-?)([0-9]{4,})-([0-9]{2})-([0-9]{2})\Z")
RE_DATE_TZ = re.compile(r"^(-?)([0-9]{4,})-([0-9]{2})-([0-9]{2})(Z|z|[+-][0-9]{2}:[0-9]{2}(:[0-9]{2})?|@.*)\Z")
RE_TIME = re.compile(r"^([0-9]{2}):([0-9]{2}):([0-9]{2})(\.([0-9]*))?(.*)\Z", re.S)
RE_OFFSET = re.compile(r"^([+-])([0-9]{2}):([0-9]{2})(:([0-9]{2}))?\Z")
RE_DTD = re.compile(r"^(-?)P(?:([0-9]+)D)?(T(?:([0-9]+)H)?(?:([0-9]+)M)?(?:([0-9]+)(\.([0-9]*))?S)?)?\Z")
RE_YMD = re.compile(r"^(-?)P(?:([0-9]+)Y)?(?:([0-9]+)M)?\Z")
RE_MIXED = re.compile(r"^-?P(?:[0-9]+Y)?(?:[0-9]+M)?(?:[0-9]+D)?(?:T(?:[0-9]+H)?(?:[0-9]+M)?(?:[0-9]+(?:\.[0-9]+)?S)?)?\Z")
ASCII_DIGITS = set("0123456789")


def _ascii(text):
    return all(ord(c) < 128 for c in text)


def parse_date(text):
    if not _ascii(text):
        return ("bad", "non-ascii")
    m = RE_DATE.match(text)
    if not m:
        if RE_DATE_TZ.match(text):
            return ("unspec", "time zone on a date")
        return ("bad", "not a date")
    sign, ys, ms, ds = m.groups()
    if len(ys) > 4 and ys[0] == "0":
        return ("bad", "leading zeros in a year of more than four digits")
    y = int(ys)
    if y == 0:
        return ("unspec", "year 0000 (XSD 1.0 forbids, XSD 1.1 allows)")
    if y > MAX_YEAR:
        return ("unspec", "year beyond +-999999999")
    if sign:
        y = -y
    mo, d = int(ms), int(ds)
    if not valid_ymd(y, mo, d):
        return ("bad", "impossible calendar date")
    return ("ok", {"k": "date", "y": y, "m": mo, "d": d})


def parse_zone(text):
    """zone suffix: '' | Z | offset | @Name  ->  ("ok", z) with z as in fmt_zone, offsets normalised (Z == +00:00)."""
    if text == "":
        return ("ok", None)
    if text == "Z":
        return ("ok", ["off", 0])
    if text == "z":
        return ("unspec", "lower-case z")
    m = RE_OFFSET.match(text)
    if m:
        sign, hh, mm, _, ss = m.groups()
        hh, mm, ss = int(hh), int(mm), int(ss or 0)
        if hh > 14:
            return ("bad", "offset hours above 14")
        if mm > 59 or ss > 59:
            return ("bad", "offset minutes/seconds above 59")
        secs = hh * 3600 + mm * 60 + ss
        return ("ok", ["off", -secs if sign == "-" else secs])
    if text.startswith("@"):
        name = text[1:]
        if name in _both():
            return ("ok", ["zone", name])
        if zones.known_to_any(name):
            return ("unspec", "zone known to one tz database release only")
        if name and zones.known_case_insensitively(name):
            return ("unspec", "zone name differing in case")
        return ("bad", "unknown zone")
    return ("bad", "malformed zone")


_BOTH = None


def _both():
    global _BOTH
    if _BOTH is None:
        _BOTH = set(zones.both())
    return _BOTH


def parse_time(text):
    if not _ascii(text):
        return ("bad", "non-ascii")
    m = RE_TIME.match(text)
    if not m:
        return ("bad", "not a time")
    hh, mm, ss, dot, frac, rest = m.groups()
    if dot is not None and frac == "":
        return ("bad", "decimal point without digits")
    h, mi, s = int(hh), int(mm), int(ss)
    if h >= 24:
        return ("bad", "hour 24 or above")
    if mi >= 60 or s >= 60:
        return ("bad", "minute or second 60 or above")
    zr = parse_zone(rest)
    if zr[0] == "bad":
        return zr
    ns = 0
    unspec = None
    if frac:
        if len(frac) > 9:
            unspec = ("unspec", "more than 9 fraction digits")
        ns = int((frac + "000000000")[:9])
    if zr[0] == "unspec":
        return zr
    if unspec:
        return unspec
    return ("ok", {"k": "time", "h": h, "mi": mi, "s": s, "ns": ns, "z": zr[1]})


def parse_dt(text):
    if not _ascii(text):
        return ("bad", "non-ascii")
    if "T" not in text:
        if parse_date(text)[0] in ("ok", "unspec"):
            return ("unspec", "date-only text given to date and time()")
        return ("bad", "no T separator")
    i = text.index("T")
    dr = parse_date(text[:i])
    tr = parse_time(text[i + 1:])
    if dr[0] == "unspec" and dr[1] == "time zone on a date":
        return ("bad", "time zone before T")
    if dr[0] == "bad":
        return dr
    if tr[0] == "bad":
        return tr
    if dr[0] == "unspec":
        return dr
    if tr[0] == "unspec":
        return tr
    v = {"k": "dt"}
    v.update({x: dr[1][x] for x in ("y", "m", "d")})
    v.update({x: tr[1][x] for x in ("h", "mi", "s", "ns", "z")})
    return ("ok", v)


def parse_dtd(text, with_fields=False):
    if not _ascii(text):
        return ("bad", "non-ascii")
    m = RE_DTD.match(text)
    if not m:
        return ("bad", "not a days and time duration")
    sign, dd, tpart, hh, mm, ss, dot, frac = m.groups()
    if dd is None and tpart is None:
        return ("bad", "no fields")
    if tpart is not None and hh is None and mm is None and ss is None:
        return ("bad", "T without time fields")
    if dot is not None and frac == "":
        return ("bad", "decimal point without digits")
    total = int(dd or 0) * NS_DAY + int(hh or 0) * NS_HOUR + int(mm or 0) * NS_MIN + int(ss or 0) * NS
    if frac:
        if len(frac) > 9:
            return ("unspec", "more than 9 fraction digits")
        total += int((frac + "000000000")[:9])
    if sign:
        total = -total
    v = {"k": "dtd", "ns": total}
    if with_fields:
        v["fields"] = {"D": dd, "H": hh, "M": mm, "S": ss, "frac": frac}
    return ("ok", v)


def parse_ymd(text, with_fields=False):
    if not _ascii(text):
        return ("bad", "non-ascii")
    m = RE_YMD.match(text)
    if not m:
        return ("bad", "not a years and months duration")
    sign, yy, mm = m.groups()
    if yy is None and mm is None:
        return ("bad", "no fields")
    total = int(yy or 0) * 12 + int(mm or 0)
    if sign:
        total = -total
    v = {"k": "ymd", "mo": total}
    if with_fields:
        v["fields"] = {"Y": yy, "M": mm}
    return ("ok", v)


def parse_duration(text, with_fields=False):
    """duration("..."): years-and-months or days-and-time."""
    a = parse_ymd(text, with_fields)
    if a[0] == "ok":
        return a
    b = parse_dtd(text, with_fields)
    if b[0] != "bad":
        return b
    if _ascii(text) and RE_MIXED.match(text) and text not in ("P", "-P") and not text.endswith("T"):
        return ("unspec", "xs:duration mixing year-month and day-time fields")
    return b


PARSERS = {"date": parse_date, "time": parse_time, "dt": parse_dt, "dtd": parse_dtd, "ymd": parse_ymd,
           "duration": parse_duration}


def parse_at(text):
    """@"..." : the unique kind whose lexical space contains the text."""
    seen_unspec = None
    for k in ("date", "dt", "time", "ymd", "dtd"):
        r = PARSERS[k](text)
        if k == "dt" and r[0] == "unspec" and r[1].startswith("date-only"):
            continue
        if r[0] == "ok":
            return r
        if r[0] == "unspec":
            seen_unspec = r
    if seen_unspec:
        return seen_unspec
    if parse_duration(text)[0] == "unspec":
        return parse_duration(text)
    return ("bad", "no temporal kind accepts the text")


def same_value(a, b):
    """Denotation equality of two parsed values of the same kind (Z == +00:00; named zones by name)."""
    if a["k"] != b["k"]:
        return False
    keys = {"date": ("y", "m", "d"), "time": ("h", "mi", "s", "ns", "z"), "dt": ("y", "m", "d", "h", "mi", "s", "ns", "z"),
            "dtd": ("ns",), "ymd": ("mo",)}[a["k"]]
    return all(a[x] == b[x] for x in keys)


def dtd_is_normalised(text):
    r = parse_dtd(text, with_fields=True)
    if r[0] != "ok":
        return False
    f = r[1]["fields"]
    if f["H"] is not None and int(f["H"]) >= 24:
        return False
    if f["M"] is not None and int(f["M"]) >= 60:
        return False
    if f["S"] is not None and int(f["S"]) >= 60:
        return False
    return True


def ymd_is_normalised(text):
    r = parse_ymd(text, with_fields=True)
    if r[0] != "ok":
        return False
    f = r[1]["fields"]
    return f["M"] is None or int(f["M"]) < 12
