"""C20 workload model: one DMN model mixing numeric, temporal, regular-expression and decision-table heavy
invocables, with nested requirements decision -> decision -> BKM -> decision service so that the recursive
read-lock path of ModelEvaluator is exercised.  Nothing here depends on the current date or time: no now(),
no today(), no time-of-day values in named zones (their offset is resolved against today's date).

Inputs (all optional; a missing input is null and the invocable then returns null or a partial value):
  n, m : number     s : string     d : date     ts : string (text of a date and time)     k : number (0..9)
"""
from xml.sax.saxutils import escape

NS = "https://verif.example/c20"
NAME = "c20-workload"

INPUTS = [("n", "number"), ("m", "number"), ("s", "string"), ("d", "date"), ("ts", "string"), ("k", "number"),
          # typed by item definitions with allowed values: calls with allowed and with forbidden values are in flight together
          ("status", "tStatus"), ("scores", "tScores"), ("person", "tPerson")]
ITEM_DEFINITIONS = (
    '<itemDefinition name="tStatus"><typeRef>string</typeRef><allowedValues><text>"EMPLOYED", "RETIRED", "STUDENT"</text></allowedValues></itemDefinition>'
    '<itemDefinition name="tScore"><typeRef>number</typeRef><allowedValues><text>[0..100]</text></allowedValues></itemDefinition>'
    '<itemDefinition name="tScores" isCollection="true"><typeRef>tScore</typeRef></itemDefinition>'
    '<itemDefinition name="tPerson"><itemComponent name="name"><typeRef>string</typeRef></itemComponent>'
    '<itemComponent name="status"><typeRef>tStatus</typeRef></itemComponent>'
    '<itemComponent name="age"><typeRef>number</typeRef><allowedValues><text>[0..150]</text></allowedValues></itemComponent></itemDefinition>')


def _input_data():
    out = []
    for name, typ in INPUTS:
        out.append('<inputData name="%s" id="_in_%s"><variable name="%s" typeRef="%s"/></inputData>' % (name, name, name, typ))
    return "\n".join(out)


def _req_inputs(names):
    return "".join('<informationRequirement><requiredInput href="#_in_%s"/></informationRequirement>' % n for n in names)


def _req_decisions(ids):
    return "".join('<informationRequirement><requiredDecision href="#%s"/></informationRequirement>' % i for i in ids)


def _req_knowledge(ids):
    return "".join('<knowledgeRequirement><requiredKnowledge href="#%s"/></knowledgeRequirement>' % i for i in ids)


def _literal(text):
    return "<literalExpression><text>%s</text></literalExpression>" % escape(text)


def _decision(name, did, reqs, logic, type_ref=None):
    tr = ' typeRef="%s"' % type_ref if type_ref else ""
    return '<decision name="%s" id="%s"><variable name="%s"%s/>%s%s</decision>' % (name, did, name, tr, reqs, logic)


def _table(hit_policy, aggregation, inputs, output_type, rules, output_name=None, output_values=None):
    """inputs: [(expr, type)], rules: [([input entries], output entry)]"""
    agg = ' aggregation="%s"' % aggregation if aggregation else ""
    s = ['<decisionTable hitPolicy="%s"%s>' % (hit_policy, agg)]
    for expr, typ in inputs:
        s.append('<input><inputExpression typeRef="%s"><text>%s</text></inputExpression></input>' % (typ, escape(expr)))
    if output_values:
        s.append('<output%s typeRef="%s"><outputValues><text>%s</text></outputValues></output>' % (
            (' name="%s"' % output_name) if output_name else "", output_type, escape(output_values)))
    else:
        s.append('<output%s typeRef="%s"/>' % ((' name="%s"' % output_name) if output_name else "", output_type))
    for ins, out in rules:
        s.append("<rule>")
        for e in ins:
            s.append("<inputEntry><text>%s</text></inputEntry>" % escape(e))
        s.append("<outputEntry><text>%s</text></outputEntry>" % escape(out))
        s.append("</rule>")
    s.append("</decisionTable>")
    return "".join(s)


NUMERIC = ("exp(n / 10) + n ** 3 + sum(for i in 1..40 return (n + i) * m / 7) + sqrt(abs(m) + 1) "
           "+ log(abs(n) + 1) + decimal(n / 3, 10) + modulo(m, 7) + floor(n * m) + m ** 0.5")

POWERS = ("{p: for i in 1..12 return (n + i) ** 2, q: sum(for i in 1..25 return exp(i / (abs(m) + 3))), "
          "r: median([n + 1, m + 2, n - m, 1.5]), e: exp(m / 5) * exp(n / 5), x: n ** 7 - m ** 5, "
          "mean: mean(for i in 1..30 return n * i - m), sd: stddev([n, m, n + m, n - m, n * m]), "
          # every class of exponent (the C library takes a different route for each): negative integers over different bases, negative
          # and positive fractions, zero, one, large integers, a negative base
          "ni: for i in 1..12 return (abs(n) + i) ** -i, inst: (abs(m) + 1) * 0.004 / (1 - (1 + (abs(n) + 1) / 1200) ** -(12 + abs(floor(m)))), "
          "nf: (abs(n) + 2) ** -0.5, pf: (abs(m) + 2) ** 1.75, z: (n + 1000) ** 0, o: (m - 1000) ** 1, "
          "big: (1 + abs(n) / 100000) ** 4000, nb: (-(abs(m) + 1.5)) ** 3 + (-(abs(n) + 2)) ** -3}")

# every FeelNumber operation that takes a decimal context, on NON-integral arguments (integral ones return early in the C library):
# floor/ceiling/decimal/modulo/abs/even/odd/number/string/comparison next to / and **
ROUNDING = ("{f: for i in 1..40 return floor((n + i) / 7), c: for i in 1..40 return ceiling((m + i) / 7), "
            "d: for i in 1..20 return decimal((n + i) / 3, 2), fm: for i in 1..20 return modulo(n + i / 2, 3), "
            "ab: abs(-(n / 7)), ev: for i in 1..10 return even(floor(n / 3) + i), od: for i in 1..10 return odd(ceiling(m / 3) + i), "
            "st: string(floor(n / 7)) + \"/\" + string(ceiling(m / 9)) + \"/\" + string(decimal(n / 7, 5)), num: number(string(n / 4)) + 1, "
            "cmp: for i in 1..20 return floor((n + i) / 7) <= ceiling((n + i) / 7), sq: sqrt(abs(n) + 0.5), "
            "mix: sum(for i in 1..30 return floor((n * i + m) / 11) - ceiling((m * i - n) / 13))}")

# built-in functions that are handed a function: the ordering function names inputs of the invoking decision (free names) and its own
# parameters; long lists keep each call busy for a while
LISTS = ("{xs: for i in 1..120 return modulo(i * 37 + floor(abs(n)), 61) - 30, "
         "byk: sort(xs, function(a, b) a * (k - 4.5) < b * (k - 4.5)), asc: sort(xs, function(a, b) a < b), "
         "bym: sort(xs, function(a, b) modulo(a, abs(floor(m)) + 2) < modulo(b, abs(floor(m)) + 2)), "
         "dv: distinct values(xs), ix: index of(xs, floor(abs(n))), mx: max(xs) - min(xs), "
         "first: byk[1], last: asc[-1], cnt: count(bym)}")

# the same directly as the logic of a decision: the free names of the ordering function are the decision's own inputs
SORTED = ("sort(for i in 1..200 return modulo(i * 37 + floor(abs(n)), 61) - 30 + i / 1000, "
          "function(a, b) a * (k - 4.5) + m < b * (k - 4.5) + m)")

ZONES = ["Europe/Warsaw", "America/New_York", "Australia/Sydney", "Asia/Tokyo", "America/Sao_Paulo", "Africa/Johannesburg",
         "Europe/London", "Asia/Kolkata", "Pacific/Auckland", "America/Los_Angeles"]

TEMPORAL = ('{zone: [%s][k + 1], '
            'zt: date and time(string(d) + "T12:00:00@" + zone), off: zt.time offset, '
            'z: zt - date and time(ts), '
            'c: years and months duration(date("2000-02-29"), d), '
            'e: date and time(ts) - date and time("2000-02-29T00:00:00Z"), '
            'u: date and time(d, time("10:30:00+02:00")), '
            'v: string(date and time("2019-11-03T09:15:30@America/New_York")) + string(k), '
            'o: date and time(ts) in [date and time("2021-01-01T00:00:00@Europe/Paris")..date and time("2021-12-31T00:00:00@Asia/Tokyo")], '
            'q: zt = date and time(string(d) + "T10:00:00Z"), '
            'nd: date(d.year, 12, k + 1), h: date and time(ts).hour, dd: date(date and time(ts)), '
            'f: string(d), g: d.year * 10000 + d.month * 100 + d.day, '
            'du: duration("P" + string(k) + "DT" + string(k * 7) + "H")}' % ", ".join('"%s"' % z for z in ZONES))

# 52 zone identifiers: many DIFFERENT zones in use at the same moment (anything remembered per zone name, or keyed on a hash of it, is
# shared between calls that use different zones)
MANY_ZONES = ["Europe/Warsaw", "Europe/London", "Europe/Paris", "Europe/Berlin", "Europe/Madrid", "Europe/Rome", "Europe/Moscow", "Europe/Athens",
              "Europe/Helsinki", "Europe/Dublin", "Atlantic/Reykjavik", "America/New_York", "America/Chicago", "America/Denver",
              "America/Los_Angeles", "America/Anchorage", "America/Toronto", "America/Vancouver", "America/Halifax", "America/St_Johns",
              "America/Phoenix", "America/Sao_Paulo", "America/Mexico_City", "America/Lima", "America/Caracas", "Pacific/Honolulu",
              "Asia/Tokyo", "Asia/Shanghai", "Asia/Kolkata", "Asia/Kathmandu", "Asia/Dubai", "Asia/Tehran", "Asia/Jerusalem", "Asia/Singapore",
              "Asia/Hong_Kong", "Asia/Seoul", "Asia/Karachi", "Asia/Bangkok", "Asia/Dhaka", "Australia/Sydney", "Australia/Adelaide",
              "Australia/Perth", "Australia/Lord_Howe", "Australia/Darwin", "Australia/Melbourne", "Pacific/Auckland", "Pacific/Chatham",
              "Africa/Johannesburg", "Africa/Lagos", "Africa/Nairobi", "Africa/Cairo", "Etc/UTC"]
MANYZONES = ('{i: modulo(floor(abs(n)) + k * 7, %d) + 1, j: modulo(floor(abs(m)) + k * 3, %d) + 1, zs: [%s], '
             'a: date and time(string(d) + "T12:00:00@" + zs[i]), b: date and time(string(d) + "T12:00:00@" + zs[j]), '
             'r: [zs[i], zs[j], a.time offset, b.time offset, a - b, a < b, a - date and time(ts), string(b)]}.r'
             % (len(MANY_ZONES), len(MANY_ZONES), ", ".join('"%s"' % z for z in MANY_ZONES)))

REGEX = ('{m: matches(s, "^[a-z]+[0-9]*(x|y)?[a-z0-9 ]*$"), r: replace(s, "([a-z])([0-9])", "$2-$1"), '
         'sp: split(s, "[0-9]+"), u: upper case(s), c: string length(s), '
         'r2: replace(s + string(k), "[aeiou]+", "<" + string(k) + ">"), i: matches(s, "A.*B", "i"), '
         'sub: substring(s, 2, 4), ct: contains(s, string(k)), sb: substring before(s, "a"), '
         'sa: substring after(s, "a"), lo: lower case(s + "ÀÉ"), ew: ends with(s, "x")}')


# several DIFFERENT patterns with flags evaluated side by side (matches and replace with i, s, m, x): anything shared between calls
# that is keyed on "the pattern used last" is thrashed by this invocable
FLAGS = ('{a: matches(s, "^[A-Z]+[0-9]*", "i"), b: matches(s + "\\nx", "a.x", "s"), c: replace(s + "\\nb", "^b", "0", "m"), '
         'd: replace(s, "E", "3", "i"), e: matches(s, "b e t a", "x"), '
         'f: for i in 1..8 return matches(string(i) + s, "^" + string(i) + "B", "i"), '
         'g: for i in 1..8 return replace(s, "[A-Y]" + string(k), string(i), "i"), h: matches(s, "^BETA", "i") and not(matches(s, "^BETA"))}')


def _grid_rules():
    rules = []
    # 40 rules over (k, n): bands of n for every k
    for k in range(10):
        for lo, hi, tag in ((None, 0, "neg"), (0, 10, "low"), (10, 100, "mid"), (100, None, "high")):
            if lo is None:
                e = "< %d" % hi
            elif hi is None:
                e = ">= %d" % lo
            else:
                e = "[%d..%d)" % (lo, hi)
            rules.append((["%d" % k, e], '"%s-%d"' % (tag, k)))
    return rules


def _collect_rules():
    rules = []
    for i in range(30):
        rules.append(([">= %d" % (i * 3), "-" if i % 3 else "< %d" % (i + 5)], "%d" % (i + 1)))
    return rules


def build():
    parts = ['<?xml version="1.0" encoding="UTF-8"?>',
             '<definitions namespace="%s" name="%s" id="_c20" xmlns="https://www.omg.org/spec/DMN/20191111/MODEL/">' % (NS, NAME),
             ITEM_DEFINITIONS, _input_data()]
    # --- leaf invocables -------------------------------------------------------------------------------
    parts.append(_decision("Numeric", "_numeric", _req_inputs(["n", "m"]), _literal(NUMERIC), "number"))
    parts.append(_decision("Powers", "_powers", _req_inputs(["n", "m"]), _literal(POWERS)))
    parts.append(_decision("Rounding", "_rounding", _req_inputs(["n", "m"]), _literal(ROUNDING)))
    parts.append(_decision("Lists", "_lists", _req_inputs(["n", "m", "k"]), _literal(LISTS)))
    parts.append(_decision("Sorted", "_sorted", _req_inputs(["n", "m", "k"]), _literal(SORTED)))
    parts.append(_decision("Temporal", "_temporal", _req_inputs(["d", "ts", "k"]), _literal(TEMPORAL)))
    parts.append(_decision("ManyZones", "_manyzones", _req_inputs(["n", "m", "k", "d", "ts"]), _literal(MANYZONES)))
    parts.append(_decision("Allowed", "_allowed", _req_inputs(["status", "scores", "person"]),
                           _literal('{st: "You are " + status, total: sum(scores), n: count(scores), who: person.name, pst: person.status, age: person.age}')))
    parts.append(_decision("Regex", "_regex", _req_inputs(["s", "k"]), _literal(REGEX)))
    parts.append(_decision("Flags", "_flags", _req_inputs(["s", "k"]), _literal(FLAGS)))
    parts.append(_decision("Grid", "_grid", _req_inputs(["k", "n"]),
                           _table("UNIQUE", None, [("k", "number"), ("n", "number")], "string", _grid_rules()), "string"))
    parts.append(_decision("Collect", "_collect", _req_inputs(["n", "k"]),
                           _table("COLLECT", "SUM", [("n", "number"), ("k", "number")], "number", _collect_rules()), "number"))
    parts.append(_decision("Priority", "_priority", _req_inputs(["s", "k"]),
                           _table("FIRST", None, [("s", "string"), ("k", "number")], "string", [
                               (['"alpha1"', "-"], '"A"'), (['"beta22x"', "< 5"], '"B<5"'), (['"beta22x"', "-"], '"B"'),
                               (["-", "0"], '"zero:" + s'), (["-", "[1..3]"], '"few:" + s'), (["-", "-"], '"other:" + s + string(k)')]),
                           "string"))
    # priority hit policies: several rules match, the rule order is the REVERSE of the order of the output values, so anything that
    # loses the output values (evaluated with the table, possibly lazily) shows as another value / another order
    levels = [([">= 0"], '"Basic"'), ([">= 10"], '"Bronze"'), ([">= 20"], '"Silver"'), ([">= 30"], '"Gold"'), ([">= 40"], '"Platinum"')]
    values = '"Platinum", "Gold", "Silver", "Bronze", "Basic"'
    parts.append(_decision("Ranked", "_ranked", _req_inputs(["n"]),
                           _table("PRIORITY", None, [("n", "number")], "string", levels, output_values=values), "string"))
    parts.append(_decision("Ordered", "_ordered", _req_inputs(["n"]),
                           _table("OUTPUT ORDER", None, [("n", "number")], "string", levels, output_values=values)))
    parts.append(_decision("Listed", "_listed", _req_inputs(["n"]),
                           _table("RULE ORDER", None, [("n", "number")], "string", levels)))
    parts.append(_decision("Least", "_least", _req_inputs(["n", "k"]),
                           _table("COLLECT", "MIN", [("n", "number"), ("k", "number")], "number", _collect_rules()), "number"))
    # recursion 60..150 invocations deep through a function kept in a context entry (every invocation pushes its own frame; anything that
    # counts or caches invocations per process instead of per evaluation shows when many threads are inside their recursions together)
    parts.append(_decision("Recur", "_recur", _req_inputs(["k", "n"]),
                           _literal('{f: function(x, acc) if x > 0 then f(x - 1, acc + x * n) else acc, r: f(60 + k * 10, 0)}.r')))
    # a decision that requires nothing (a table of constants computed by iteration, filter and invocation) and one that requires it:
    # whatever an evaluator shares between the evaluations of such a decision is shared between the threads
    parts.append(_decision("Consts", "_consts", "", _literal('{steps: for i in 1..30 return i * 25, picked: [1, 2, 3, 4][item > 1], '
                                                             'inc: (function(a) a + 1)(2), all: every x in [1, 2, 3] satisfies x > 0}')))
    parts.append(_decision("UsesConsts", "_usesconsts", _req_decisions(["_consts"]) + _req_inputs(["n"]),
                           _literal('[count(Consts.steps[item < n]), Consts.inc, sum(Consts.picked) + n]')))
    # --- nested requirements: Top -> Mid -> BKM Calc -> decision service Svc -> Leaf -> Base ---------------
    parts.append(_decision("Base", "_base", _req_inputs(["n", "k"]), _literal("n * 2 + k"), "number"))
    parts.append(_decision("Leaf", "_leaf", _req_decisions(["_base"]) + _req_inputs(["m"]),
                           _literal('{base: Base, scaled: Base * m, tag: "leaf" + string(Base)}')))
    parts.append('<decisionService name="Svc" id="_svc"><variable name="Svc"/>'
                 '<outputDecision href="#_leaf"/><encapsulatedDecision href="#_base"/>'
                 '<inputData href="#_in_n"/><inputData href="#_in_m"/><inputData href="#_in_k"/></decisionService>')
    parts.append('<businessKnowledgeModel name="Calc" id="_calc"><variable name="Calc"/>'
                 '<encapsulatedLogic><formalParameter name="a" typeRef="number"/><formalParameter name="b" typeRef="number"/>'
                 + _literal("a * a + b + sum(for i in 1..10 return a * i)") + '</encapsulatedLogic>'
                 + _req_knowledge(["_svc"]) + '</businessKnowledgeModel>')
    parts.append('<businessKnowledgeModel name="Band" id="_band"><variable name="Band"/>'
                 '<encapsulatedLogic><formalParameter name="v" typeRef="number"/>'
                 + _table("UNIQUE", None, [("v", "number")], "string",
                          [(["< 0"], '"negative"'), (["[0..50)"], '"small"'), (["[50..5000)"], '"medium"'), ([">= 5000"], '"large"')])
                 + '</encapsulatedLogic></businessKnowledgeModel>')
    parts.append(_decision("Mid", "_mid", _req_knowledge(["_calc", "_band", "_svc"]) + _req_decisions(["_base", "_grid"]) + _req_inputs(["n", "m", "k"]),
                           _literal('{calc: Calc(Base, m), band: Band(Calc(Base, m)), svc: Svc(n, m, k), grid: Grid, '
                                    'both: Calc(n, k) + Svc(n + 1, m, k).scaled}')))
    parts.append(_decision("Top", "_top", _req_decisions(["_mid", "_regex", "_collect"]) + _req_inputs(["s"]),
                           _literal('{mid: Mid, label: s + ":" + string(Mid.calc) + ":" + Mid.band, rx: Regex.r, total: Collect, '
                                    'deep: Mid.svc}')))
    parts.append('<decisionService name="Outer" id="_outer"><variable name="Outer"/>'
                 '<outputDecision href="#_top"/><outputDecision href="#_numeric"/>'
                 '<encapsulatedDecision href="#_mid"/><encapsulatedDecision href="#_regex"/><encapsulatedDecision href="#_collect"/>'
                 '<encapsulatedDecision href="#_base"/><encapsulatedDecision href="#_grid"/>'
                 + "".join('<inputData href="#_in_%s"/>' % n for n, _ in INPUTS) + '</decisionService>')
    parts.append("</definitions>")
    return "\n".join(parts)


XML = build()

# invocables by workload class (the property's "numeric, temporal, regular-expression and decision-table heavy")
CLASSES = {
    "numeric": ["Numeric", "Powers", "Rounding", "Lists"],
    "lists": ["Sorted", "Lists", "Sorted"],
    "temporal": ["Temporal", "ManyZones"],
    "regex": ["Regex", "Flags", "Priority"],
    "typed": ["Allowed"],
    "recursion": ["Recur"],
    "constant": ["Consts", "UsesConsts"],
    "table": ["Grid", "Collect", "Priority", "Ranked", "Ordered", "Listed", "Least"],
    "nested": ["Top", "Mid", "Outer", "Svc", "Leaf", "Calc", "Band"],
}
INVOCABLES = ["Numeric", "Powers", "Rounding", "Lists", "Sorted", "Temporal", "ManyZones", "Allowed", "Regex", "Flags", "Grid", "Collect", "Priority", "Ranked", "Ordered", "Listed", "Least", "Recur", "Consts", "UsesConsts", "Base", "Leaf", "Svc", "Calc", "Band",
              "Mid", "Top", "Outer"]


def class_of(name):
    for c in ("nested", "lists", "numeric", "temporal", "regex", "table", "typed", "recursion", "constant"):
        if name in CLASSES[c]:
            return c
    return "other"
