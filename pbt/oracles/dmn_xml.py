"""Writer of minimal DMN 1.3 <definitions> documents (no SUT code involved).

Building blocks (all return XML text; `definitions(...)` assembles them):
  input_data(name, type_ref)                      -> <inputData>
  item_definition(name, type_ref|components, ...) -> <itemDefinition>
  decision(name, logic_xml, requires_inputs, requires_decisions, type_ref) -> <decision>
  literal_expression(text, type_ref)              -> <literalExpression>
  decision_table(table_dict)                      -> <decisionTable> from the generic dict described below
  definitions(name, namespace, elements)          -> the document

The decision-table dict is deliberately plain so that other properties can produce it without pbt.oracles.dtable_model:
  {"hit_policy": "UNIQUE"|"ANY"|"PRIORITY"|"FIRST"|"RULE ORDER"|"OUTPUT ORDER"|"COLLECT",
   "aggregation": None|"SUM"|"MIN"|"MAX"|"COUNT", "output_label": str|None, "orientation": None|"Rule-as-Row"|...,
   "inputs":  [{"expr": text, "type_ref": str|None, "values": text|None}],
   "outputs": [{"name": str|None, "type_ref": str|None, "values": text|None, "default": text|None}],
   "rules":   [{"in": [text...], "out": [text...], "description": str|None}]}
Identifiers are derived from positions, so equal inputs give byte-identical documents.
"""

NS_MODEL_13 = "https://www.omg.org/spec/DMN/20191111/MODEL/"


def esc(s):
    """Text/attribute escaping."""
    return (str(s).replace("&", "&amp;").replace("<", "&lt;").replace(">", "&gt;").replace('"', "&quot;"))


def ident(name):
    """An xsd:ID made from a name (letters/digits kept, the rest replaced)."""
    out = "".join(ch if (ch.isascii() and ch.isalnum()) else "_" for ch in str(name))
    return "_" + out


def _attrs(pairs):
    return "".join(' %s="%s"' % (k, esc(v)) for k, v in pairs if v is not None)


def text_el(text):
    return "<text>%s</text>" % esc(text)


def input_data(name, type_ref=None, id_=None):
    return '<inputData%s><variable%s/></inputData>' % (
        _attrs([("name", name), ("id", id_ or ident("in_" + name))]),
        _attrs([("name", name), ("typeRef", type_ref)]))


def item_definition(name, type_ref=None, components=None, is_collection=False, allowed_values=None):
    """components: [(name, type_ref)] for a structure; allowed_values: unary tests text."""
    body = ""
    if type_ref is not None:
        body += "<typeRef>%s</typeRef>" % esc(type_ref)
    if allowed_values is not None:
        body += "<allowedValues>%s</allowedValues>" % text_el(allowed_values)
    for cn, ct in components or []:
        body += '<itemComponent%s><typeRef>%s</typeRef></itemComponent>' % (_attrs([("name", cn), ("id", ident("ic_%s_%s" % (name, cn)))]), esc(ct))
    return '<itemDefinition%s>%s</itemDefinition>' % (
        _attrs([("name", name), ("isCollection", "true" if is_collection else None)]), body)


def literal_expression(text, type_ref=None):
    return '<literalExpression%s>%s</literalExpression>' % (_attrs([("typeRef", type_ref)]), text_el(text))


def decision_table(t):
    a = [("hitPolicy", t.get("hit_policy")), ("aggregation", t.get("aggregation")),
         ("outputLabel", t.get("output_label")), ("preferredOrientation", t.get("orientation"))]
    out = ["<decisionTable%s>" % _attrs(a)]
    for i, c in enumerate(t["inputs"]):
        out.append('<input id="_input_%d"><inputExpression%s>%s</inputExpression>' % (i, _attrs([("typeRef", c.get("type_ref"))]), text_el(c["expr"])))
        if c.get("values") is not None:
            out.append("<inputValues>%s</inputValues>" % text_el(c["values"]))
        out.append("</input>")
    for i, c in enumerate(t["outputs"]):
        out.append('<output%s>' % _attrs([("id", "_output_%d" % i), ("name", c.get("name")), ("typeRef", c.get("type_ref"))]))
        if c.get("values") is not None:
            out.append("<outputValues>%s</outputValues>" % text_el(c["values"]))
        if c.get("default") is not None:
            out.append("<defaultOutputEntry>%s</defaultOutputEntry>" % text_el(c["default"]))
        out.append("</output>")
    for i, r in enumerate(t["rules"]):
        out.append('<rule id="_rule_%d">' % i)
        if r.get("description") is not None:
            out.append("<description>%s</description>" % esc(r["description"]))
        for e in r["in"]:
            out.append("<inputEntry>%s</inputEntry>" % text_el(e))
        for e in r["out"]:
            out.append("<outputEntry>%s</outputEntry>" % text_el(e))
        out.append("</rule>")
    out.append("</decisionTable>")
    return "".join(out)


def decision(name, logic_xml, requires_inputs=(), requires_decisions=(), type_ref=None, id_=None, variable_name=None,
             requires_knowledge=()):
    """requires_*: names (ids are derived with the same rule as input_data()/decision())."""
    out = ['<decision%s>' % _attrs([("name", name), ("id", id_ or ident("d_" + name))]),
           '<variable%s/>' % _attrs([("name", variable_name or name), ("typeRef", type_ref)])]
    k = 0
    for n in requires_decisions:
        out.append('<informationRequirement id="%s_ir%d"><requiredDecision href="#%s"/></informationRequirement>' % (ident("d_" + name), k, ident("d_" + n)))
        k += 1
    for n in requires_inputs:
        out.append('<informationRequirement id="%s_ir%d"><requiredInput href="#%s"/></informationRequirement>' % (ident("d_" + name), k, ident("in_" + n)))
        k += 1
    for n in requires_knowledge:
        out.append('<knowledgeRequirement id="%s_kr%d"><requiredKnowledge href="#%s"/></knowledgeRequirement>' % (ident("d_" + name), k, ident("bkm_" + n)))
        k += 1
    out.append(logic_xml)
    out.append("</decision>")
    return "".join(out)


def definitions(name, elements, namespace="https://verif.example/model", id_=None, xmlns=NS_MODEL_13):
    return ('<?xml version="1.0" encoding="UTF-8"?>\n<definitions%s>%s</definitions>' % (
        _attrs([("namespace", namespace), ("name", name), ("id", id_ or ident("defs_" + name)), ("xmlns", xmlns)]),
        "".join(elements)))


def single_table_model(table, input_names_types, decision_name="D", decision_type_ref=None, model_name="m"):
    """<definitions> with one inputData per (name, type_ref) and one decision holding the table."""
    els = [decision(decision_name, decision_table(table), requires_inputs=[n for n, _ in input_names_types],
                    type_ref=decision_type_ref)]
    els += [input_data(n, t) for n, t in input_names_types]
    return definitions(model_name, els)
