"""Reference for property C11 (typed inputs and outputs), written from the property statement; imports nothing from the SUT.

Input side, `reaches(tree, value)`: what reaches the decision logic —
  * a value conforming to the declared type passes unchanged, anything else is replaced by null;
  * for a component type only the non-conforming component is replaced (the structure itself must be a context);
  * a collection conforms when it is a list whose items all conform (DMN 7.3.2: with isCollection the definition describes
    "collections of allowed values", i.e. allowed values constrain the items); a non-conforming item makes the whole
    collection non-conforming; an item of a collection of structures follows the component rule;
  * a referencing definition conforms when the referenced one does (its own allowed values: labelled, see notes).
`notes` name what the statement does not decide (then nothing, or only a weak form, is asserted):
  null-item            a null item inside a collection (null conforms to every FEEL type, the SUT checks the item kind)
  missing-component    a context without one of the components (whole value null or that component null)
  extra-entries        a context with entries that are not components (kept or dropped)
  ref-own-allowed      allowed values declared on a definition that only references another one

Output side, `coerced(tree, value)`: the statement's rule with the FEEL type the definition denotes (allowed values are
not part of a FEEL type): unchanged when the value's type conforms, singleton wrap / unwrap when that conforms, else null
(pbt/oracles/types_ref.py, shared with C16).

Deviation flags (diagnosis of documented defects only, never acceptance):
  "coll_av_rejects"   a collection definition that has allowed values rejects every list
  "collref_items"     in a collection of a referenced type a non-conforming item becomes null instead of the whole value
  "nounwrap"          (C16) no from-singleton-list conversion when the target is a list type
"""
from . import itemdef_gen as IG
from . import types_ref as TR

FEEL_NAME = {"number": "number", "string": "string", "boolean": "boolean", "date": "date", "time": "time", "dateTime": "date and time",
             "dayTimeDuration": "days and time duration", "yearMonthDuration": "years and months duration"}


def is_list(v):
    return isinstance(v, dict) and "l" in v


def is_ctx(v):
    return isinstance(v, dict) and "c" in v


class Input:
    def __init__(self, dev=(), keep_extras=False, ignore_ref_av=False, missing_nulls_structure=False):
        self.missing_nulls_structure = missing_nulls_structure   # the other defensible reading of `missing-component`
        self.dev = set(dev)
        self.keep_extras = keep_extras          # the other defensible reading of `extra-entries`
        self.ignore_ref_av = ignore_ref_av      # the other defensible reading of `ref-own-allowed`
        self.fired = set()
        self.notes = set()

    def reach(self, n, v, as_item=False):
        """-> (value that reaches the logic, ok). ok=False: the value does not conform and is null as a whole."""
        if n["coll"] and not as_item:
            if not is_list(v):
                return None, False
            if n.get("av") and "coll_av_rejects" in self.dev:
                self.fired.add("coll_av_rejects")
                return None, False
            out = []
            for x in v["l"]:
                y, ok = self.reach(n, x, as_item=True)
                if not ok:
                    if n["k"] == "ref" and "collref_items" in self.dev:
                        self.fired.add("collref_items")
                        out.append(None)
                        continue
                    return None, False
                out.append(y)
            return {"l": out}, True
        if v is None:
            if as_item:
                self.notes.add("null-item")
            return None, True
        if n["k"] == "ref":
            y, ok = self.reach(n["to"], v)
            if not ok:
                return None, False
            if n.get("av") and y is not None and IG.type_of_wire(y) is not None:
                if not IG.av_holds(n["av"], y):
                    self.notes.add("ref-own-allowed")
                    if not self.ignore_ref_av:
                        return None, False
            return y, True
        if n["k"] == "comp":
            if not is_ctx(v):
                return None, False
            d = {}
            for a, b in v["c"]:
                d[a] = b
            names = [name for name, _ in n["comps"]]
            if any(name not in d for name in names):
                self.notes.add("missing-component")
                if self.missing_nulls_structure:
                    return None, False
            if any(a not in names for a in d):
                self.notes.add("extra-entries")
            out = []
            for name, c in n["comps"]:
                if name in d:
                    y, _ = self.reach(c, d[name])
                    out.append([name, y])
                else:
                    out.append([name, None])
            if self.keep_extras:
                out += [[a, b] for a, b in v["c"] if a not in names]
            return {"c": out}, True
        if IG.type_of_wire(v) != n["type"]:
            return None, False
        if n.get("av") and not IG.av_holds(n["av"], v):
            return None, False
        return v, True


def reaches(tree, v, dev=(), keep_extras=False, ignore_ref_av=False, missing_nulls_structure=False):
    """-> (expected wire value, notes, fired)"""
    i = Input(dev, keep_extras, ignore_ref_av, missing_nulls_structure)
    y, ok = i.reach(tree, v)
    return (y if ok else None), i.notes, i.fired


def feel_type(n, as_item=False):
    """the FEEL type an item definition denotes (types_ref encoding)"""
    if n["coll"] and not as_item:
        return TR.t_list(feel_type(n, as_item=True))
    if n["k"] == "simple":
        return FEEL_NAME[n["type"]]
    if n["k"] == "ref":
        return feel_type(n["to"])
    return TR.t_ctx([(name, feel_type(c)) for name, c in n["comps"]])


def has_av(n):
    if n.get("av"):
        return True
    if n["k"] == "ref":
        return has_av(n["to"])
    if n["k"] == "comp":
        return any(has_av(c) for _, c in n["comps"])
    return False


def coerced(tree, v, dev=()):
    """-> (expected wire value, rule, notes). rule in conforms|wrap|unwrap|null."""
    notes = set()
    t = feel_type(tree)
    d = frozenset(x for x in dev if x == "nounwrap")
    out, rule = TR.coerce(t, v, d)
    if TR.both_conversions_apply(t, v):
        notes.add("wrap-and-unwrap-both-apply")
    if rule != "null" and has_av(tree):
        y, n2, _ = reaches(tree, out)
        if not same_wire(y, out) and not (n2 - {"null-item"}):
            notes.add("output-violates-allowed-values")
    return out, rule, notes


def same_wire(a, b):
    from .. import val
    return val.same(val.from_wire(a), val.from_wire(b))
