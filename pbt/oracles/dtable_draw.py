"""Box-drawing renderer for decision tables (both orientations, all optional parts). Independent of the SUT: it is written
from the drawing conventions of DMN 1.3 clause 8.2 and the gallery in /repo/examples (rules as rows: hit policy top-left, rule
numbers down the left; rules as columns: the transposed picture, hit policy bottom-left, rule numbers along the bottom).

A *spec* is the drawing-level view of a table; every text is a list of unbreakable pieces ("words") between which the
renderer may put a blank or a line break:
  {"hp": "U".., "name": words|None, "label": words|None,
   "inputs": [{"expr": words, "values": words|None}], "outputs": [{"name": words|None, "values": words|None}],
   "annotations": [words], "rules": [{"in": [words], "out": [words], "ann": [words]}]}
render(spec, src) -> {"text", "features", "vertical"}; all layout decisions are drawn from `src` (engine.Src), the all-zero
choice sequence gives the plainest drawing (horizontal, one line per cell, one blank of padding).
expected(spec, vertical) -> the normalised field dump a faithful recogniser must produce.
"""
from . import dtable_model as M

# (up, down, left, right) with 0 = no line, 1 = single, 2 = double
GLYPH = {
    (0, 0, 1, 1): "─", (1, 1, 0, 0): "│", (0, 1, 0, 1): "┌", (0, 1, 1, 0): "┐", (1, 0, 0, 1): "└", (1, 0, 1, 0): "┘",
    (1, 1, 0, 1): "├", (1, 1, 1, 0): "┤", (0, 1, 1, 1): "┬", (1, 0, 1, 1): "┴", (1, 1, 1, 1): "┼",
    (0, 0, 2, 2): "═", (2, 2, 0, 0): "║",
    (0, 2, 1, 1): "╥", (2, 0, 1, 1): "╨", (2, 2, 1, 1): "╫", (2, 2, 0, 1): "╟", (2, 2, 1, 0): "╢",
    (0, 2, 0, 1): "╓", (0, 2, 1, 0): "╖", (2, 0, 0, 1): "╙", (2, 0, 1, 0): "╜",
    (0, 1, 2, 2): "╤", (1, 0, 2, 2): "╧", (1, 1, 2, 2): "╪", (1, 1, 0, 2): "╞", (1, 1, 2, 0): "╡",
    (0, 1, 0, 2): "╒", (0, 1, 2, 0): "╕", (1, 0, 0, 2): "╘", (1, 0, 2, 0): "╛",
    (2, 2, 2, 2): "╬", (0, 2, 2, 2): "╦", (2, 0, 2, 2): "╩", (2, 2, 0, 2): "╠", (2, 2, 2, 0): "╣",
    (0, 2, 0, 2): "╔", (0, 2, 2, 0): "╗", (2, 0, 0, 2): "╚", (2, 0, 2, 0): "╝",
}
BOX_GLYPHS = sorted(set(GLYPH.values()))


def spec_of_table(T):
    single = len(T["outputs"]) == 1
    return {
        "hp": T["hp"],
        "name": M.name_words(T["name"]) if T.get("name") else None,
        "label": M.name_words(T["label"]) if T.get("label") else None,
        "inputs": [{"expr": M.name_words(c["expr"]), "values": M.values_words(c["values"]) if c["values"] else None} for c in T["inputs"]],
        "outputs": [{"name": None if single else M.name_words(c["name"]),
                     "values": M.values_words(c["values"]) if c["values"] else None} for c in T["outputs"]],
        "annotations": [M.name_words(a) for a in T.get("annotations", [])],
        "rules": [{"in": [M.words(e) for e in r["in"]], "out": [[M.lit_text(o)] for o in r["out"]],
                   "ann": [M.name_words(a) for a in r.get("ann", [])]} for r in T["rules"]],
    }


def _j(ws):
    return " ".join(ws) if ws is not None else None


def expected(spec, vertical):
    """Normalised dump (same keys as the driver's table_json) of what the drawing denotes."""
    hp, agg = M.SUT_HIT_POLICY[spec["hp"]]
    single = len(spec["outputs"]) == 1
    if single:
        label = _j(spec["label"] or [])
    else:
        label = _j(spec["label"]) if spec["label"] is not None else None
    return {
        "hit_policy": hp, "aggregation": agg,
        "orientation": "Rule-as-Column" if vertical else "Rule-as-Row",
        "information_item_name": _j(spec["name"]) if spec["name"] is not None else None,
        "output_label": label,
        "inputs": [{"expr": _j(c["expr"]), "values": _j(c["values"])} for c in spec["inputs"]],
        "outputs": [{"name": _j(c["name"]), "values": _j(c["values"])} for c in spec["outputs"]],
        "annotations": [_j(a) for a in spec["annotations"]],
        "rules": [{"in": [_j(e) for e in r["in"]], "out": [_j(e) for e in r["out"]], "ann": [_j(e) for e in r["ann"]]} for r in spec["rules"]],
    }


def normalised(table_json):
    """The driver's dump of a recognised table, whitespace-normalised, in the shape of expected()."""
    t = table_json
    n = M.norm
    return {
        "hit_policy": t["hit_policy"], "aggregation": t["aggregation"], "orientation": t["orientation"],
        "information_item_name": n(t["information_item_name"]),
        "output_label": n(t["output_label"]),
        "inputs": [{"expr": n(c["expr"]), "values": n(c["values"])} for c in t["inputs"]],
        "outputs": [{"name": n(c["name"]), "values": n(c["values"])} for c in t["outputs"]],
        "annotations": [n(a) for a in t["annotations"]],
        "rules": [{"in": [n(e) for e in r["in"]], "out": [n(e) for e in r["out"]], "ann": [n(e) for e in r["ann"]]} for r in t["rules"]],
    }


def spec_of_recognised(table_json):
    """Drawing spec from a recognised table (used to re-draw the gallery): every non-blank cell line is one piece."""
    def ws(s):
        if s is None:
            return None
        return [l.strip() for l in s.split("\n") if l.strip()]
    t = table_json
    marker = {v[0]: k for k, v in M.SUT_HIT_POLICY.items()}[t["hit_policy"]]
    single = len(t["outputs"]) == 1
    label = ws(t["output_label"])
    if single and not label:
        label = None
    return {
        "hp": marker, "name": ws(t["information_item_name"]), "label": label,
        "inputs": [{"expr": ws(c["expr"]), "values": ws(c["values"])} for c in t["inputs"]],
        "outputs": [{"name": ws(c["name"]), "values": ws(c["values"])} for c in t["outputs"]],
        "annotations": [ws(a) for a in t["annotations"]],
        "rules": [{"in": [ws(e) for e in r["in"]], "out": [ws(e) for e in r["out"]], "ann": [ws(e) for e in r["ann"]]} for r in t["rules"]],
    }


def diff(exp, got, path=""):
    """First difference between two dumps as (path, expected, got) or None."""
    if isinstance(exp, dict) and isinstance(got, dict):
        for k in exp:
            if k not in got:
                return (path + "/" + k, exp[k], "<missing>")
            d = diff(exp[k], got[k], path + "/" + k)
            if d:
                return d
        return None
    if isinstance(exp, list) and isinstance(got, list):
        if len(exp) != len(got):
            return (path + "/#", len(exp), len(got))
        for i, (a, b) in enumerate(zip(exp, got)):
            d = diff(a, b, "%s/%d" % (path, i))
            if d:
                return d
        return None
    return None if exp == got else (path, exp, got)


# ------------------------------------------------------------------------------------------------------------------
# grid of regions
# ------------------------------------------------------------------------------------------------------------------

class Grid:
    def __init__(self, rows, cols):
        self.R, self.C = rows, cols
        self.cell = [[None] * cols for _ in range(rows)]
        self.regions = []          # [r0, r1, c0, c1, words, role]
        self.dbl_rows = set()      # indexes of row boundaries (0..R) drawn double
        self.dbl_cols = set()

    def add(self, r0, r1, c0, c1, ws, role):
        k = len(self.regions)
        self.regions.append([r0, r1, c0, c1, list(ws or []), role])
        for r in range(r0, r1):
            for c in range(c0, c1):
                assert self.cell[r][c] is None, (r, c, role)
                self.cell[r][c] = k
        return k

    def shifted(self, dr, dc, rows, cols):
        g = Grid(rows, cols)
        for r0, r1, c0, c1, ws, role in self.regions:
            g.add(r0 + dr, r1 + dr, c0 + dc, c1 + dc, ws, role)
        g.dbl_rows = {b + dr for b in self.dbl_rows}
        g.dbl_cols = {b + dc for b in self.dbl_cols}
        return g

    def transposed(self):
        g = Grid(self.C, self.R)
        for r0, r1, c0, c1, ws, role in self.regions:
            g.add(c0, c1, r0, r1, ws, role)
        g.dbl_rows = set(self.dbl_cols)
        g.dbl_cols = set(self.dbl_rows)
        return g


def build_grid(spec, src, features):
    ni, no, na = len(spec["inputs"]), len(spec["outputs"]), len(spec["annotations"])
    n = len(spec["rules"])
    values = spec["inputs"][0]["values"] is not None
    label_row = no > 1 and spec["label"] is not None
    H = 1 + (1 if label_row else 0) + (1 if values else 0)
    g = Grid(H + n, ni + no + na)
    for j, c in enumerate(spec["inputs"]):
        g.add(0, H - (1 if values else 0), j, j + 1, c["expr"], "expr")
        if values:
            g.add(H - 1, H, j, j + 1, c["values"], "values")
    if label_row:
        g.add(0, 1, ni, ni + no, spec["label"], "label")
    for k, c in enumerate(spec["outputs"]):
        top = 1 if label_row else 0
        g.add(top, top + 1, ni + k, ni + k + 1, (spec["label"] or []) if no == 1 else c["name"], "label" if no == 1 else "component")
        if values:
            g.add(H - 1, H, ni + k, ni + k + 1, c["values"], "values")
    for a, ws in enumerate(spec["annotations"]):
        col = ni + no + a
        if H > 1 and src.bool(0.5):
            cut = src.int(1, H - 1)
            g.add(0, cut, col, col + 1, ws, "annotation")
            g.add(cut, H, col, col + 1, [], "blank")
        else:
            g.add(0, H, col, col + 1, ws, "annotation")
    merged = False
    for j in range(ni):
        i = 0
        while i < n:
            k = i + 1
            while k < n and spec["rules"][k]["in"][j] == spec["rules"][i]["in"][j] and src.bool(0.35):
                k += 1
            g.add(H + i, H + k, j, j + 1, spec["rules"][i]["in"][j], "in")
            merged = merged or k > i + 1
            i = k
    for i, r in enumerate(spec["rules"]):
        for k in range(no):
            g.add(H + i, H + i + 1, ni + k, ni + k + 1, r["out"][k], "out")
        for a in range(na):
            g.add(H + i, H + i + 1, ni + no + a, ni + no + a + 1, r["ann"][a], "ann")
    g.dbl_rows = {H}
    g.dbl_cols = {ni} | ({ni + no} if na else set())
    if merged:
        features.append("merged-entries")
    return g, H, n, values


def orient(g, H, n, values, hp, vertical, src, features):
    if not vertical:
        f = g.shifted(0, 1, g.R, g.C + 1)
        if H > 1 and src.bool(0.25):
            cut = src.int(1, H - 1)
            f.add(0, cut, 0, 1, [hp], "hp")
            f.add(cut, H, 0, 1, [], "blank")
            features.append("hp-cell-split")
        else:
            f.add(0, H, 0, 1, [hp], "hp")
        for i in range(n):
            f.add(H + i, H + i + 1, 0, 1, [str(i + 1)], "rule-number")
        return f
    t = g.transposed()
    f = t.shifted(0, 0, t.R + 1, t.C)
    last = t.R
    if H > 1 and src.bool(0.5):
        cut = src.int(1, H - 1)
        f.add(last, last + 1, 0, cut, [hp], "hp")
        f.add(last, last + 1, cut, H, [], "blank")
        features.append("hp-cell-split")
    else:
        f.add(last, last + 1, 0, H, [hp], "hp")
    for i in range(n):
        f.add(last, last + 1, H + i, H + i + 1, [str(i + 1)], "rule-number")
    return f


# ------------------------------------------------------------------------------------------------------------------
# painting
# ------------------------------------------------------------------------------------------------------------------

def split_lines(ws, src, allow_multiline):
    """Group the pieces into lines."""
    if not ws:
        return []
    if len(ws) == 1 or not allow_multiline or not src.bool(0.35):
        return [" ".join(ws)]
    k = src.int(2, min(len(ws), 4))
    cuts = sorted(src.sample(range(1, len(ws)), k - 1))
    out, prev = [], 0
    for c in cuts + [len(ws)]:
        out.append(" ".join(ws[prev:c]))
        prev = c
    return out


def paint(g, src, features, plain=False, min_width=0):
    """Returns (rows of characters, xb, yb, widths); min_width: least x of the right edge."""
    R, C = g.R, g.C
    regs = []
    multiline = pad0 = False
    for r0, r1, c0, c1, ws, role in g.regions:
        lines = split_lines(ws, src, not plain and role not in ("hp", "rule-number"))
        if plain:
            pad_l = pad_r = 1
            pad_v = 0
        else:
            pad_l = src.weighted([(6, 1), (3, 0), (2, 2), (1, 5)])
            pad_r = src.weighted([(6, 1), (3, 0), (2, 2), (1, 5)])
            pad_v = src.weighted([(8, 0), (2, 1), (1, 2)])
        if len(lines) > 1:
            multiline = True
        if lines and (pad_l == 0 or pad_r == 0):
            pad0 = True
        need_w = max([len(l) for l in lines] + [0]) + pad_l + pad_r
        need_h = max(1, len(lines)) + pad_v
        regs.append([lines, pad_l, pad_r, max(1, need_w), need_h])
    w = [1] * C
    h = [1] * R
    order = sorted(range(len(regs)), key=lambda k: ((g.regions[k][3] - g.regions[k][2]) + (g.regions[k][1] - g.regions[k][0]), k))
    for k in order:
        r0, r1, c0, c1 = g.regions[k][:4]
        cur = sum(w[c0:c1]) + (c1 - c0 - 1)
        if cur < regs[k][3]:
            w[c0 + (src.int(0, c1 - c0 - 1) if not plain else c1 - c0 - 1)] += regs[k][3] - cur
        cur = sum(h[r0:r1]) + (r1 - r0 - 1)
        if cur < regs[k][4]:
            h[r0 + (src.int(0, r1 - r0 - 1) if not plain else r1 - r0 - 1)] += regs[k][4] - cur
    if not plain:
        for c in range(C):
            w[c] += src.weighted([(8, 0), (2, 1), (1, 3), (1, 9)])
        for r in range(R):
            h[r] += src.weighted([(12, 0), (1, 1)])
    total = sum(w) + C
    if total < min_width:
        w[C - 1] += min_width - total
    xb = [0]
    for c in range(C):
        xb.append(xb[-1] + w[c] + 1)
    yb = [0]
    for r in range(R):
        yb.append(yb[-1] + h[r] + 1)
    cv = [[" "] * (xb[C] + 1) for _ in range(yb[R] + 1)]
    cell = g.cell

    def vseg(r, b):      # vertical boundary b alongside grid row r
        if b == 0 or b == C:
            return 1
        if cell[r][b - 1] != cell[r][b]:
            return 2 if b in g.dbl_cols else 1
        return 0

    def hseg(b, c):      # horizontal boundary b alongside grid column c
        if b == 0 or b == R:
            return 1
        if cell[b - 1][c] != cell[b][c]:
            return 2 if b in g.dbl_rows else 1
        return 0
    for r in range(R):
        for b in range(C + 1):
            t = vseg(r, b)
            if t:
                for y in range(yb[r] + 1, yb[r + 1]):
                    cv[y][xb[b]] = "│" if t == 1 else "║"
    for b in range(R + 1):
        for c in range(C):
            t = hseg(b, c)
            if t:
                for x in range(xb[c] + 1, xb[c + 1]):
                    cv[yb[b]][x] = "─" if t == 1 else "═"
    for bi in range(R + 1):
        for bj in range(C + 1):
            key = (vseg(bi - 1, bj) if bi > 0 else 0, vseg(bi, bj) if bi < R else 0,
                   hseg(bi, bj - 1) if bj > 0 else 0, hseg(bi, bj) if bj < C else 0)
            if key != (0, 0, 0, 0):
                cv[yb[bi]][xb[bj]] = GLYPH[key]
    for k, (r0, r1, c0, c1, ws, role) in enumerate(g.regions):
        lines, pad_l, pad_r = regs[k][:3]
        if not lines:
            continue
        x0, x1 = xb[c0] + 1, xb[c1]            # interior [x0, x1)
        y0, y1 = yb[r0] + 1, yb[r1]
        W, Hh = x1 - x0, y1 - y0
        top = src.int(0, Hh - len(lines)) if not plain else (Hh - len(lines)) // 2
        mode = src.weighted([(4, "left"), (4, "center"), (2, "right"), (1, "ragged")]) if not plain else "center"
        for i, l in enumerate(lines):
            free = W - len(l)
            if mode == "left":
                off = min(pad_l, free)
            elif mode == "right":
                off = free - min(pad_r, free)
            elif mode == "center":
                off = free // 2
            else:
                off = src.int(0, free)
            for q, ch in enumerate(l):
                cv[y0 + top + i][x0 + off + q] = ch
    if multiline:
        features.append("multi-line-cells")
    if pad0:
        features.append("zero-padding")
    return cv, xb, yb, w


def plan_name_box(name_ws, src, plain=False):
    lines = split_lines(name_ws, src, not plain)
    pad_l = 1 if plain else src.weighted([(6, 1), (3, 0), (2, 3)])
    pad_r = 1 if plain else src.weighted([(6, 1), (3, 0), (2, 3)])
    need = max(len(l) for l in lines) + pad_l + pad_r
    return {"lines": lines, "pad_l": pad_l, "pad_r": pad_r, "need": need}


def add_name_box(cv, plan, src, features, plain=False):
    """Puts the information item name box on top of the painted table (the table is at least plan.need + 1 wide)."""
    lines, pad_l, pad_r, need = plan["lines"], plan["pad_l"], plan["pad_r"], plan["need"]
    width = len(cv[0]) - 1                      # x of the table's right edge
    assert need + 1 <= width
    top = cv[0]
    at_columns = [x for x in range(need + 1, width) if top[x] == "┬"]
    where = "full" if plain else src.weighted([(3, "any"), (3, "full"), (2, "column")])
    if where == "full":
        xr = width
    elif where == "column" and at_columns:
        xr = src.choice(at_columns)
    else:
        xr = src.int(need + 1, width)
    if top[xr] in ("╥", "╦"):
        xr += 1
    if xr == width:
        features.append("name-box-full-width")
    elif top[xr] == "┬":
        features.append("name-box-ends-at-column")
    else:
        features.append("name-box-ends-inside-column")
    box = []
    box.append(["┌"] + ["─"] * (xr - 1) + ["┐"])
    vpad_top = 0 if plain else src.weighted([(8, 0), (1, 1)])
    vpad_bot = 0 if plain else src.weighted([(8, 0), (1, 1)])
    mode = "left" if plain else src.weighted([(4, "left"), (3, "center"), (1, "right")])
    rows = [""] * vpad_top + lines + [""] * vpad_bot
    W = xr - 1
    for l in rows:
        free = W - len(l)
        off = min(pad_l, free) if mode == "left" else (free // 2 if mode == "center" else free - min(pad_r, free))
        box.append(["│"] + list(" " * off + l + " " * (free - off)) + ["│"])
    top[0] = "├"
    top[xr] = {"─": "┴", "┬": "┼", "┐": "┤"}[top[xr]]
    if len(lines) > 1:
        features.append("multi-line-name")
    return box + cv


def render(spec, src, vertical=None, plain=False, decorate=True):
    """-> {"text", "features", "vertical"}. plain=True: fixed simple layout (used by C03, where layout is not the subject)."""
    features = []
    if vertical is None:
        vertical = src.bool(0.5)
    g0, H, n, values = build_grid(spec, src, features)
    g = orient(g0, H, n, values, spec["hp"], vertical, src, features)
    plan = plan_name_box(spec["name"], src, plain) if spec["name"] is not None else None
    cv, xb, yb, w = paint(g, src, features, plain=plain, min_width=(plan["need"] + 1) if plan else 0)
    if plan:
        cv = add_name_box(cv, plan, src, features, plain=plain)
        features.append("information-item-name")
    lines = ["".join(row).rstrip() for row in cv]
    if vertical:
        features.append("vertical")
    if values:
        features.append("allowed-values")
    if len(spec["outputs"]) > 1:
        features.append("several-outputs")
        if spec["label"] is not None:
            features.append("output-label-row")
    elif spec["label"] is not None:
        features.append("output-label")
    if spec["annotations"]:
        features.append("annotations")
    text = decorate_text(lines, src, features) if (decorate and not plain) else "\n".join(lines) + "\n"
    return {"text": text, "features": features, "vertical": vertical}


def decorate_text(lines, src, features):
    indent = src.weighted([(5, "  "), (3, ""), (1, "\t"), (1, "        ")])
    out = []
    if src.bool(0.3):
        for _ in range(src.int(1, 3)):
            out.append(src.choice(["// decision table", "Discount table:", "# draft 2 | not final", "text before the table ┐", "x = 1"]))
        features.append("preamble")
    blank = src.bool(0.15)
    for l in lines:
        if blank and src.bool(0.2):
            out.append("" if src.bool(0.5) else "   ")
        out.append(indent + l + (" " * src.int(0, 3) if src.bool(0.1) else ""))
    if blank:
        features.append("blank-lines-inside")
    if src.bool(0.4):
        for _ in range(src.int(1, 3)):
            out.append(src.choice(["% { x: 1 }, 2", "% note", "└─ trailing text ┘", "", "end."]))
        features.append("trailer")
    if indent:
        features.append("indented")
    nl = "\r\n" if src.bool(0.1) else "\n"
    if nl != "\n":
        features.append("crlf")
    text = nl.join(out)
    if src.bool(0.8):
        text += nl
    if src.bool(0.5):
        text = nl + text
    return text
