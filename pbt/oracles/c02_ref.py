"""C02 reference: what a decimal128 operation must return, computed without the SUT.

Sources of truth, in this order:
  * exact rationals (fractions.Fraction / Python ints) rounded ONCE to decimal128 by `round_scaled` below
    (floor, ceiling, decimal, modulo, odd, even, integer powers);
  * CPython `decimal` (libmpdec) under the decimal128 context for the correctly rounded operations
    (add, subtract, multiply, divide, sqrt) with its flags;
  * CPython `decimal` at 80 digits as a practically exact reference for exp, ln and non-integer powers, against which
    the SUT result is allowed 2 units in the last place.
Nothing here imports from the SUT.

NOTE: never use Python operators (+ - * / abs, unary -) on Decimals here: they round to the thread context (28 digits).
Only explicit contexts, copy_abs/copy_negate, comparisons (exact) and int()/Fraction conversions (exact).
"""
import decimal
from decimal import Decimal
from fractions import Fraction

from .. import dec

PREC, EMAX, EMIN, ETINY, ETOP = dec.PREC, dec.EMAX, dec.EMIN, dec.ETINY, dec.ETOP
MAXV = Decimal("9.999999999999999999999999999999999E+6144")
TEN = 10

# exact arithmetic on operands/results (differences of numbers 12000 orders apart need ~12300 digits)
BIG = decimal.Context(prec=25000, Emax=decimal.MAX_EMAX, Emin=decimal.MIN_EMIN, rounding=decimal.ROUND_HALF_EVEN)
BIG.traps = dict.fromkeys(BIG.traps, False)
# "practically exact" transcendental reference
HP = decimal.Context(prec=80, Emax=decimal.MAX_EMAX, Emin=decimal.MIN_EMIN, rounding=decimal.ROUND_HALF_EVEN)
HP.traps = dict.fromkeys(HP.traps, False)


class Exp:
    """Expected outcome. kind: 'num' (value, tol in ulps, ulp, ref for tolerance), 'bool', 'null'.
    alt: other acceptable outcomes (list of 'null' | Decimal | bool) where the statement is not decisive; labels: classes."""

    def __init__(self, kind, value=None, tol=0, ulp=None, ref=None, labels=(), alt=(), why=""):
        self.kind, self.value, self.tol, self.ulp, self.ref = kind, value, tol, ulp, ref
        self.labels = list(labels)
        self.alt = list(alt)
        self.why = why

    def show(self):
        if self.kind == "null":
            s = "null (%s)" % self.why
        elif self.kind == "bool":
            s = str(self.value).lower()
        else:
            s = "%s" % self.value + (" within %d ulp (ulp=%s)" % (self.tol, self.ulp) if self.tol else "")
        if self.alt:
            s += " [also acceptable: %s]" % ", ".join("null" if a == "null" else str(a) for a in self.alt)
        return s


# ------------------------------------------------------------------------------------------------
# rounding an exact rational once to decimal128
# ------------------------------------------------------------------------------------------------

def _ndigits(n):
    """number of decimal digits of a positive int (exact, without the int->str length limit)."""
    if n < 10 ** 18:
        return len(str(n))
    d = int((n.bit_length() - 1) * 0.30102999566398120) + 1   # floor(log10(n))+1, possibly one off
    while n >= TEN ** d:
        d += 1
    while n < TEN ** (d - 1):
        d -= 1
    return d


def round_scaled(neg, num, den, e10=0):
    """(+/-) num/den * 10**e10 (num >= 0, den > 0 ints) rounded once, half-even, to decimal128.
    Returns (Decimal | None when the rounded magnitude exceeds the largest finite value, exact: bool, labels)."""
    if num == 0:
        return Decimal((1 if neg else 0, (0,), 0)), True, []
    # adjusted exponent of num/den
    adj = _ndigits(num) - _ndigits(den)          # floor(log10(num/den)) is adj or adj-1
    if adj >= 0:
        if num < den * TEN ** adj:
            adj -= 1
    else:
        if num * TEN ** (-adj) < den:
            adj -= 1
    total = adj + e10                            # adjusted exponent of the exact value
    if total > EMAX + 1:
        return None, False, ["overflow"]
    if total < ETINY - 2:
        return Decimal((1 if neg else 0, (0,), ETINY)), False, ["underflow-to-zero"]
    q = max(total - (PREC - 1), ETINY)           # exponent of the last kept digit
    labels = []
    if q == ETINY and total - (PREC - 1) < ETINY:
        labels.append("subnormal-result")
    shift = e10 - q                              # coefficient = num/den * 10**shift
    if shift >= 0:
        n2, d2 = num * TEN ** shift, den
    else:
        n2, d2 = num, den * TEN ** (-shift)
    c, r = divmod(n2, d2)
    exact = r == 0
    if not exact:
        twice = 2 * r
        if twice > d2 or (twice == d2 and c % 2 == 1):
            c += 1
        if twice == d2:
            labels.append("tie")
    if c == TEN ** PREC:
        c //= 10
        q += 1
    if c == 0:
        labels.append("underflow-to-zero")
        return Decimal((1 if neg else 0, (0,), ETINY)), False, labels
    if q + _ndigits(c) - 1 > EMAX:
        return None, False, ["overflow"]
    # clamp: exponent above ETOP needs padding zeros; the value is what matters here
    return Decimal((1 if neg else 0, tuple(int(ch) for ch in str(c)), q)), exact, labels


def round_fraction(fr):
    return round_scaled(fr < 0, abs(fr.numerator), fr.denominator, 0)


def frac(d):
    """exact Fraction of a finite Decimal without building 10**6000 more often than needed."""
    s, digits, e = d.as_tuple()
    c = int("".join(map(str, digits)) or "0")
    if s:
        c = -c
    return Fraction(c * TEN ** e) if e >= 0 else Fraction(c, TEN ** (-e))


def ulp_of(d):
    """unit in the last place of the decimal128 value d (a full-precision coefficient is assumed, as every inexact result has)."""
    if d == 0:
        return Decimal((0, (1,), ETINY))
    return Decimal((0, (1,), max(d.adjusted() - (PREC - 1), ETINY)))


def is_int(d):
    return d == d.to_integral_value()


# ------------------------------------------------------------------------------------------------
# the operations
# ------------------------------------------------------------------------------------------------

BINARY = ("add", "sub", "mul", "div", "pow", "modulo", "decimal", "cmp")
UNARY = ("neg", "abs", "floor", "ceiling", "sqrt", "exp", "log", "odd", "even")


def _from_ctx(fn, *args):
    """a correctly rounded libmpdec operation under the decimal128 context -> Exp."""
    c = dec.ctx128()
    r = fn(c, *args)
    f = c.flags
    if f[decimal.InvalidOperation] or f[decimal.DivisionByZero]:
        return Exp("null", why="undefined", labels=["undefined"])
    if f[decimal.Overflow]:
        return Exp("null", why="overflow: beyond the largest decimal128 value", labels=["overflow"])
    labels = []
    if f[decimal.Inexact]:
        labels.append("inexact")
    if f[decimal.Subnormal] and r != 0:
        labels.append("subnormal-result")
    if f[decimal.Underflow]:
        labels.append("underflow")
    if f[decimal.Clamped] and r != 0 and not f[decimal.Subnormal]:
        labels.append("clamped")
    return Exp("num", r, labels=labels)


def _exact_num(value, exact, labels):
    if value is None:
        return Exp("null", why="overflow: beyond the largest decimal128 value", labels=["overflow"])
    return Exp("num", value, labels=list(labels) + ([] if exact else ["inexact"]))


def _tolerant(ref, labels):
    """ref: practically exact positive-or-negative Decimal (80 digits) or Fraction; result allowed 2 ulp."""
    if isinstance(ref, Fraction):
        v, exact, lb = round_fraction(ref)
        refd = None
    else:
        c = dec.ctx128()
        v = c.plus(ref)
        exact = not c.flags[decimal.Inexact]
        lb = []
        if c.flags[decimal.Overflow]:
            v = None
        elif c.flags[decimal.Subnormal] and v != 0:
            lb.append("subnormal-result")
        refd = ref
    if v is None:
        # the correctly rounded result overflows; a result 2 ulp low may still be the largest finite number
        e = Exp("null", why="overflow: beyond the largest decimal128 value", labels=list(labels) + ["overflow"])
        e.ref = ref
        e.ulp = ulp_of(MAXV)
        e.tol = 2
        return e
    # the 2 ulp are granted to the operation (exp, ln, real powers), also where the reference happens to be representable
    return Exp("num", v, tol=2, ulp=ulp_of(v), ref=ref if refd is None else refd,
               labels=list(labels) + lb + (["reference-representable"] if exact else ["inexact"]))


def _pow(a, b):
    if b == 0:
        if a == 0:
            return Exp("null", why="0**0 is undefined", labels=["undefined"])
        return Exp("num", Decimal(1), labels=["pow-zero-exponent"])
    b_int = is_int(b)
    if a == 0:
        if b < 0:
            return Exp("null", why="0 to a negative power is undefined", labels=["undefined"])
        return Exp("num", Decimal(0), labels=["pow-zero-base"])
    if a < 0 and not b_int:
        return Exp("null", why="negative base with non-integer exponent is undefined in the reals", labels=["undefined"])
    if b_int:
        n = int(b)
        neg = a < 0 and n % 2 == 1
        s, digits, e = a.as_tuple()
        cs = "".join(map(str, digits)).rstrip("0")
        e += len(digits) - len(cs)
        c = int(cs)
        labels = ["pow-int"] + (["pow-neg-base"] if a < 0 else []) + (["pow-neg-exp"] if n < 0 else [])
        if abs(n) > 999999999:
            labels.append("pow-exponent-beyond-9-digits")
        if c == 1:
            # power of ten: exact whatever the size of n
            E = e * n
            if E > EMAX:
                return Exp("null", why="overflow: beyond the largest decimal128 value", labels=labels + ["overflow"])
            if E < ETINY:
                return Exp("num", Decimal((1 if neg else 0, (0,), ETINY)), labels=labels + ["underflow-to-zero", "inexact"])
            return Exp("num", Decimal((1 if neg else 0, (1,), E)), labels=labels + ["pow-of-ten"])
        if abs(n) <= 400:
            big = c ** abs(n)
            if n > 0:
                v, exact, lb = round_scaled(neg, big, 1, e * n)
            else:
                v, exact, lb = round_scaled(neg, 1, big, e * n)
            if v is None:
                return Exp("null", why="overflow: beyond the largest decimal128 value", labels=labels + ["overflow"])
            if exact:
                return Exp("num", v, labels=labels + lb + ["exact-result"])
            # inexact power: 2 ulp around the exact rational (kept symbolic: coefficient ratio and exponent)
            ex = Exp("num", v, tol=2, ulp=ulp_of(v) if v != 0 else Decimal((0, (1,), ETINY)), labels=labels + lb + ["inexact"])
            ex.ref = ("scaled", neg, big if n > 0 else 1, 1 if n > 0 else big, e * n)
            return ex
        # |n| > 400 and the coefficient is not a power of ten: never exact in 34 digits; 80-digit reference
        hp = HP.copy()
        hp.clear_flags()
        ref = hp.power(a.copy_abs(), b)
        if hp.flags[decimal.Overflow] or not ref.is_finite():
            return Exp("null", why="overflow: beyond the largest decimal128 value", labels=labels + ["overflow"])
        if neg:
            ref = ref.copy_negate()
        return _tolerant(ref, labels)
    # positive base, non-integer exponent: exp(b * ln a) at 80 digits
    labels = ["pow-real"]
    la = HP.ln(a)
    arg = BIG.multiply(la, b)
    if arg > 14200:
        return Exp("null", why="overflow: beyond the largest decimal128 value", labels=labels + ["overflow"])
    if arg < -14300:
        return Exp("num", Decimal((0, (0,), ETINY)), labels=labels + ["underflow-to-zero", "inexact"])
    # absolute error of arg: |b| * 1e-80*|la|  -> relative error of exp(arg) about the same; |arg| <= 14300 keeps it < 1e-70
    HP2 = decimal.Context(prec=110, Emax=decimal.MAX_EMAX, Emin=decimal.MIN_EMIN)
    HP2.traps = dict.fromkeys(HP2.traps, False)
    la = HP2.ln(a)
    ref = HP2.exp(HP2.multiply(la, b))
    return _tolerant(ref, labels)


def _exp(a):
    if a > 14200:
        return Exp("null", why="overflow: beyond the largest decimal128 value", labels=["overflow"])
    if a < -14300:
        return Exp("num", Decimal((0, (0,), ETINY)), labels=["underflow-to-zero", "inexact"])
    return _tolerant(HP.exp(a), [])


def _log(a):
    if a <= 0:
        return Exp("null", why="logarithm of a non-positive number is undefined", labels=["undefined"])
    return _tolerant(HP.ln(a), [])


def _decimal(n, scale):
    """FEEL decimal(n, scale): n rounded half-even to `scale` fractional digits."""
    labels = []
    if not is_int(scale):
        # the DMN text only shows integer scales (the SUT truncates); any finite number or null is accepted, and the
        # class of the truncated scale is reported so that a NaN can be attributed to its cause
        t = _decimal(n, scale.to_integral_value(rounding=decimal.ROUND_DOWN))
        return Exp("num", None, labels=["unspecified:non-integer-scale"] + [l for l in t.labels if l == "decimal-needs-35+-digits"])
    s = int(scale)
    if s < -6111 or s > 6176:
        return Exp("null", why="scale outside -6111..6176", labels=["unspecified:scale-out-of-range"])
    if s == 6176:
        # the DMN text gives the range as [-6111..6176]; the SUT's bound is exclusive. The value is n itself.
        return Exp("num", n, alt=["null"], labels=["unspecified:scale-6176"])
    f = frac(n)
    scaled = f * TEN ** s if s >= 0 else f / TEN ** (-s)
    k = round(scaled)          # Fraction.__round__ is half-even
    if scaled.denominator == 2:
        labels.append("tie")
    if k != scaled:
        labels.append("inexact")
    v, exact, lb = round_scaled(k < 0, abs(k), 1, -s)
    if v is None or not exact:
        # cannot happen for scale >= -6111 (see findings/C02.md); kept as an oracle self-check
        raise AssertionError("decimal(%s,%s): rounded value not representable" % (n, scale))
    if k == 0 and f < 0:
        v = Decimal((1, (0,), 0))
    # the result *with that scale* needs digits(k) digits; more than 34 is not a decimal128 quantum
    if k != 0 and _ndigits(abs(k)) > PREC:
        labels.append("decimal-needs-35+-digits")
        return Exp("num", v, alt=["null"], labels=labels)
    if k == 0 and -s < ETINY:
        labels.append("decimal-needs-35+-digits")
        return Exp("num", v, alt=["null"], labels=labels)
    return Exp("num", v, labels=labels)


def _modulo(a, b):
    if b == 0:
        return Exp("null", why="modulo by zero is undefined", labels=["undefined"])
    fa, fb = frac(a), frac(b)
    q = (fa / fb).__floor__()
    r = fa - fb * q
    labels = []
    if q != 0 and _ndigits(abs(q)) > PREC:
        labels.append("modulo-quotient-35+-digits")
    if (a < 0) != (b < 0) and a != 0:
        labels.append("modulo-mixed-signs")
    v, exact, lb = round_fraction(r)
    if v is None:
        raise AssertionError("modulo result cannot overflow")
    return Exp("num", v, labels=labels + lb + ([] if exact else ["inexact"]))


def expected(op, a, b=None):
    """a, b: exact finite Decimals. Returns Exp (for 'cmp': dict op->bool)."""
    if op == "add":
        return _from_ctx(lambda c, x, y: c.add(x, y), a, b)
    if op == "sub":
        return _from_ctx(lambda c, x, y: c.subtract(x, y), a, b)
    if op == "mul":
        return _from_ctx(lambda c, x, y: c.multiply(x, y), a, b)
    if op == "div":
        return _from_ctx(lambda c, x, y: c.divide(x, y), a, b)
    if op == "sqrt":
        if a < 0:
            return Exp("null", why="square root of a negative number is undefined", labels=["undefined"])
        return _from_ctx(lambda c, x: c.sqrt(x), a)
    if op == "neg":
        return Exp("num", a.copy_negate() if a != 0 else Decimal(0))
    if op == "abs":
        return Exp("num", a.copy_abs() if a != 0 else Decimal(0))
    if op == "floor":
        f = frac(a)
        k = f.__floor__()
        return Exp("num", Decimal(k), labels=[] if k == f else ["inexact"])
    if op == "ceiling":
        f = frac(a)
        k = f.__ceil__()
        return Exp("num", Decimal(k), labels=[] if k == f else ["inexact"])
    if op == "pow":
        return _pow(a, b)
    if op == "exp":
        return _exp(a)
    if op == "log":
        return _log(a)
    if op == "decimal":
        return _decimal(a, b)
    if op == "modulo":
        return _modulo(a, b)
    if op in ("odd", "even"):
        if not is_int(a):
            # neither odd nor even; the DMN text only shows integers: false or null are both defensible
            return Exp("bool", False, alt=["null"], labels=["unspecified:non-integer"])
        s, digits, e = a.as_tuple()
        if e > 0:
            last = 0
        else:
            last = digits[-1] if e == 0 else (digits[len(digits) - 1 + e] if len(digits) + e > 0 else 0)
        is_odd = last % 2 == 1
        lb = ["integer-with-positive-exponent"] if e > 0 and a != 0 else []
        if a != 0 and a.adjusted() >= PREC:
            lb.append("integer-35+-digits")
        if e < 0:
            lb.append("integer-with-fraction-zeros")
        return Exp("bool", is_odd if op == "odd" else not is_odd, labels=lb)
    if op == "cmp":
        c = (a > b) - (a < b)
        return {"eq": c == 0, "ne": c != 0, "lt": c < 0, "le": c <= 0, "gt": c > 0, "ge": c >= 0}
    raise ValueError(op)


def is_tie(op, a, b):
    """the exact result of a (+,-,*,/) b has exactly 35 significant digits, the last one 5: half-way between two decimal128 neighbours."""
    c = decimal.Context(prec=PREC + 1, Emax=decimal.MAX_EMAX, Emin=decimal.MIN_EMIN, rounding=decimal.ROUND_DOWN)
    c.traps = dict.fromkeys(c.traps, False)
    r = {"add": c.add, "sub": c.subtract, "mul": c.multiply, "div": c.divide}[op](a, b)
    if c.flags[decimal.Inexact] or not r.is_finite():
        return False
    d = r.as_tuple().digits
    return len(d) == PREC + 1 and d[-1] == 5 and EMIN <= r.adjusted() <= EMAX


def within(got, ex):
    """True when the finite Decimal `got` satisfies the numeric expectation ex (exact or 2-ulp)."""
    if ex.tol == 0:
        return got == ex.value
    return err_ulps_le(got, ex.ref, ex.ulp, ex.tol)


def err_ulps_le(got, ref, ulp, tol):
    if isinstance(ref, tuple):          # ("scaled", neg, num, den, e10): exact rational num/den*10**e10
        _, neg, num, den, e10 = ref
        # |got - ref| <= tol*ulp   <=>   |got*den - (+/-)num*10**e10| <= tol*ulp*den   (all exact Decimals in BIG)
        sgn = -1 if neg else 1
        lhs = BIG.subtract(BIG.multiply(got, Decimal(den)), BIG.multiply(Decimal(sgn * num), Decimal((0, (1,), e10))))
        return lhs.copy_abs() <= BIG.multiply(BIG.multiply(Decimal(tol), ulp), Decimal(den))
    if isinstance(ref, Fraction):
        return abs(frac(got) - ref) <= tol * frac(ulp)
    return BIG.subtract(got, ref).copy_abs() <= BIG.multiply(Decimal(tol), ulp)


# ------------------------------------------------------------------------------------------------
# models of the documented deviations (used only to give a failure its signature)
# ------------------------------------------------------------------------------------------------

def model_modulo_three_steps(a, b):
    """What `a - b*floor(a/b)` gives when every step is rounded to decimal128 (the SUT's formula). Text as decNumber prints it
    is not needed: the caller compares numerically or by the special-value name."""
    c = dec.ctx128()
    q = c.divide(a, b)
    fl = q.to_integral_value(rounding=decimal.ROUND_FLOOR) if q.is_finite() else q
    return c.subtract(a, c.multiply(b, fl))
