"""Reference evaluator of decision requirement graphs (models of pbt/oracles/drg_gen.py), written from the property
statement C04 and DMN 1.3 (10.4 execution semantics of decisions / knowledge models / decision services; 10.2.1 boxed
expressions). Imports nothing from the SUT.

  value(decision)  = its logic in a context binding required inputs to the supplied values, required decisions' variables
                     to those decisions' own values, required knowledge to function values
  function(BKM)    = parameters -> encapsulated logic in (parameters + its own required knowledge); never the caller's scope
  function(service)= parameters (input data, then input decisions) -> output decisions evaluated with the parameters
                     standing for the input data / input decisions; one output: its value, several: context of them
  boxed context    = entries in order, each sees the earlier ones; value of the result entry, else the context
  boxed invocation = named application; relation = list of row contexts; function definition = function value

`overrides` (name -> value) replaces the value of a decision / knowledge element by a supplied value: that is how a
service's input decisions are bound, and it is also used to *describe* (never to assert) what the SUT does with input
entries named like a required decision (class `shadow`).

Deviation flags (diagnosis of documented defects only):
  "fd_null"            a boxed function definition evaluates to null
  "fd_dynamic"         the function value of a boxed function definition evaluates its body in the caller's scope (it does
                       not capture the scope it was defined in; same root as C01/closure-dynamic-scope)
  "ctx_flat"           the entries of a boxed context nested inside another boxed context are written into the frame
                       of the enclosing logic (they stay visible, and overwrite same-named entries, after the nested
                       context has ended)
  "inv_omitted"        the logic of a knowledge model runs on top of the scope of whoever calls it (same root as
                       C01/closure-dynamic-scope): a parameter that a boxed invocation leaves without binding, and a name the logic
                       mentions although it is neither a parameter nor required knowledge, are not null but resolve to a same-named
                       entry of the invoking element (or of its callers). Decision services read their arguments from the top
                       frame only and do not show it.
  "inv_whole_null"     not a defect but a second accepted reading: a boxed invocation that leaves a parameter unbound is null as a whole
  "bkm_service_value"  a decision service required by a BKM is bound to the service's *result* for the current input
                       context instead of to a function
"""
from decimal import Decimal

from . import feel as F
from .. import val

Unspecified = F.Unspecified


class NativeFn:
    def __init__(self, name, params, call, kind=None):
        self.name, self.params, self.call = name, params, call     # params: [(name, typeRef|None)]
        self.kind = kind                                            # "bkm" | "service" | None (boxed function definition)

    def __repr__(self):
        return "<function %s>" % self.name


class _Undetermined:
    def __repr__(self):
        return "<undetermined non-function value>"


UNDETERMINED = _Undetermined()


def contains_undetermined(v):
    if v is UNDETERMINED:
        return True
    if isinstance(v, list):
        return any(contains_undetermined(x) for x in v)
    if isinstance(v, dict):
        return any(contains_undetermined(x) for x in v.values())
    return False


def conforms_builtin(t, v):
    """True/False for the three built-in types used on parameters and variables in C04 models; None = not decided here"""
    if t == "number":
        return isinstance(v, Decimal)
    if t == "string":
        return isinstance(v, str)
    if t == "boolean":
        return isinstance(v, bool)
    return None


def conforms_input(t, v):
    if v is None:
        return True
    c = conforms_builtin(t, v)
    if c is not None:
        return c
    if t == "tNumList":
        return isinstance(v, list) and all(isinstance(x, Decimal) for x in v)
    if t == "tPoint":
        return isinstance(v, dict) and set(v) == {"k", "m"} and isinstance(v["k"], Decimal) and isinstance(v["m"], str)
    raise Unspecified("input type %s" % t)


def coerce_builtin(t, v):
    """output variable of a built-in type: unchanged when conforming, singleton list unwrapped, else null"""
    if t is None or v is None:
        return v
    if conforms_builtin(t, v):
        return v
    if isinstance(v, list) and len(v) == 1 and v[0] is not None and conforms_builtin(t, v[0]):
        return v[0]
    if isinstance(v, list) and len(v) == 1 and v[0] is None:
        raise Unspecified("singleton list of null against a typed variable")
    return None


class DRef(F.Ref):
    def e_filter(self, n, env):
        if F.filter_is_index(n[2]):
            i = self.ev(n[2], env)
            if isinstance(i, Decimal) and i.as_tuple().exponent != 0:
                # 2.0 / 2E+0 as a position: number-to-position conversion is C08's subject (the SUT reads the printed text)
                raise Unspecified("index that is an integer written with a fraction part or exponent")
        return F.Ref.e_filter(self, n, env)

    def apply(self, f, args, env):
        if isinstance(f, NativeFn):
            if len(args) != len(f.params):
                raise Unspecified("arity mismatch")
            return f.call(self, list(args), env)
        return F.Ref.apply(self, f, args, env)

    def e_calln(self, n, env):
        f = self.ev(n[1], env)
        if isinstance(f, NativeFn):
            given = {}
            for name, a in n[2]:
                given[name] = self.ev(a, env)
            names = [p for p, _ in f.params]
            if set(given) != set(names) or len(given) != len(n[2]):
                raise Unspecified("named arguments do not match the parameters")
            return f.call(self, [given[p] for p in names], env)
        return F.Ref.e_calln(self, n, env)


def check_args(params, args):
    for (p, t), a in zip(params, args):
        if t is not None and a is not None and conforms_builtin(t, a) is False:
            raise Unspecified("argument does not conform to the declared parameter type")


class Evaluation:
    """One invocation of one invocable."""

    def __init__(self, model, dev=()):
        self.m = model
        self.dev = set(dev)
        self.idx = {}
        for kind in ("inputs", "decisions", "bkms", "services"):
            for x in model[kind]:
                self.idx[x["name"]] = (kind[:-1], x)
        self.ref = DRef()
        self.fired = set()
        self.ctx_depth = 0

    # ---- boxed logic
    def logic(self, L, env):
        t = L[0]
        if t == "lit":
            return self.ref.ev(L[1], env)
        if t == "ctx" and "ctx_flat" in self.dev:
            top = env.frames[-1]
            if self.ctx_depth > 0:
                self.fired.add("ctx_flat")
            self.ctx_depth += 1
            try:
                collected = {}
                for name, sub in L[1]:
                    v = self.logic(sub, env)
                    top[name] = v
                    collected[name] = v
                if L[2] is not None:
                    return self.logic(L[2], env)
                return collected
            finally:
                self.ctx_depth -= 1
        if t == "ctx":
            frame = {}
            for name, sub in L[1]:
                if name in frame:
                    raise Unspecified("duplicate context entry")
                v = self.logic(sub, env.push(frame))
                frame[name] = v
            if L[2] is not None:
                return self.logic(L[2], env.push(frame))
            return dict(frame)
        if t == "inv":
            f = self.ref.e_name(["name", L[1]], env)
            given = {}
            for p, sub in L[2]:
                if p in given:
                    raise Unspecified("duplicate binding")
                given[p] = self.logic(sub, env)
            if isinstance(f, NativeFn):
                names = [p for p, _ in f.params]
                if not set(given) <= set(names):
                    raise Unspecified("bindings do not match the parameters")
                omitted = [p for p in names if p not in given]
                if omitted and "inv_whole_null" in self.dev:
                    # the other defensible reading: an invocation that does not bind every parameter is null as a whole (what a FEEL
                    # call with too few arguments gives)
                    self.fired.add("inv_whole_null")
                    return None
                if omitted and "inv_omitted" in self.dev and f.kind == "bkm":
                    return f.call(self.ref, [given.get(p) for p in names], env, omitted=omitted)
                return f.call(self.ref, [given.get(p) for p in names], env)
            if f is None or self.fired:
                return None      # behind a modelled deviation the invocation of a non-function shows up as null
            raise Unspecified("invocation of a value that is not a model function")
        if t == "rel":
            return [{c: self.ref.ev(e, env) for c, e in zip(L[1], row)} for row in L[2]]
        if t == "fd":
            if "fd_null" in self.dev:
                self.fired.add("fd_null")
                return None
            params, body = L[1], L[2]

            def call(ref, args, caller=None, params=params, body=body, env=env):
                base = env
                if "fd_dynamic" in self.dev and caller is not None:
                    self.fired.add("fd_dynamic")
                    base = caller
                return self.logic(body, base.push(dict(zip(params, args))))
            return NativeFn("<boxed>", [(p, None) for p in params], call)
        if t == "dt":
            return self.table(L[1], env)
        raise ValueError(t)

    def table(self, T, env):
        vals = []
        for c in T["inputs"]:
            v = self.ref.ev(c["expr"], env)
            if c["kind"] == "num" and not isinstance(v, Decimal) or c["kind"] == "str" and not isinstance(v, str):
                raise Unspecified("decision table input is null or of another kind")
            vals.append(v)

        def lit(x, v):
            return Decimal(x) if isinstance(v, Decimal) else x

        def holds(t, v):
            k = t[0]
            if k == "-":
                return True
            if k == "lt":
                return v < lit(t[1], v)
            if k == "ge":
                return v >= lit(t[1], v)
            if k == "eq":
                return v == lit(t[1], v)
            if k == "rng":
                return lit(t[1], v) <= v <= lit(t[2], v)
            raise ValueError(t)

        def out(r):
            if len(T["outputs"]) == 1:
                return self.ref.ev(r["out"][0], env)
            return {n: self.ref.ev(e, env) for n, e in zip(T["outputs"], r["out"])}
        ms = [r for r in T["rules"] if all(holds(t, v) for t, v in zip(r["in"], vals))]
        def nomatch():
            d = T.get("defaults")
            if d and d[0] is not None and len(T["outputs"]) == 1:
                return self.ref.ev(d[0], env)       # the default output entry, evaluated like an output entry
            return None
        if T["hp"] == "U":
            if len(ms) > 1:
                raise Unspecified("unique table with several matches")
            return out(ms[0]) if ms else nomatch()
        if T["hp"] == "F":
            return out(ms[0]) if ms else nomatch()
        if not ms:
            raise Unspecified("collect table without a match")
        return [out(r) for r in ms]

    # ---- elements
    def knowledge(self, name, inputs, overrides):
        if name in overrides:
            return overrides[name]
        kind, x = self.idx[name]
        if kind == "bkm":
            return self.bkm_function(x, inputs, overrides)
        return self.service_function(x)

    def bkm_function(self, b, inputs, overrides):
        params = [(p, t) for p, t in b["params"]]
        frame = {}
        for r in b["reqK"]:
            if "bkm_service_value" in self.dev and r not in overrides and self.idx[r][0] == "service":
                self.fired.add("bkm_service_value")
                given = dict(inputs)
                given.update(overrides)
                try:
                    frame[r] = self.service(self.idx[r][1], given)
                except Unspecified:
                    frame[r] = UNDETERMINED      # some value that is not a function
            else:
                frame[r] = self.knowledge(r, inputs, overrides)

        def call(ref, args, caller=None, b=b, params=params, frame=frame, omitted=()):
            check_args(params, args)
            if "inv_omitted" in self.dev and caller is not None:
                # deviation inv_omitted: the logic of EVERY knowledge model runs on top of the scope of whoever calls it (the whole
                # chain of callers), and parameters left out by a boxed invocation are not bound at all: they resolve in that chain
                if any(caller.get(p)[0] for p in omitted) or any(caller.get(n)[0] for n in b.get("dangling", [])):
                    self.fired.add("inv_omitted")
                env = caller.push(dict(frame)).push({p: a for (p, _), a in zip(params, args) if p not in omitted})
            else:
                env = F.Env([dict(frame), dict(zip([p for p, _ in params], args))])
            return coerce_builtin(b.get("type"), self.logic(b["logic"], env))
        return NativeFn(b["name"], params, call, kind="bkm")

    def service_function(self, sv):
        params = [(i, self.idx[i][1]["type"]) for i in sv["inI"]] + [(d, self.idx[d][1].get("type")) for d in sv["inD"]]

        def call(ref, args, caller=None, sv=sv, params=params):
            for (p, t), a in zip(params, args):
                if t is not None and a is not None and not conforms_input(t, a):
                    raise Unspecified("service argument does not conform to the parameter type")
            given = dict(zip([p for p, _ in params], args))
            return self.service(sv, given)
        return NativeFn(sv["name"], params, call, kind="service")

    def service(self, sv, given):
        """given: parameter name -> value (absent = null)"""
        inputs = {i: given.get(i) for i in sv["inI"]}
        overrides = {d: given.get(d) for d in sv["inD"]}
        cache = {}
        outs = [(o, self.decision(o, inputs, overrides, cache)) for o in sv["out"]]
        if len(outs) == 1:
            v = outs[0][1]
        else:
            v = {o: x for o, x in outs}
        return coerce_builtin(sv.get("type"), v)

    def decision(self, name, inputs, overrides, cache):
        if name in cache:
            return cache[name]
        d = self.idx[name][1]
        frame = {}
        for i in d["reqI"]:
            v = inputs.get(i)
            if not conforms_input(self.idx[i][1]["type"], v):
                raise Unspecified("input value does not conform to the input data type (C11)")
            frame[i] = v
        for r in d["reqD"]:
            frame[r] = overrides[r] if r in overrides else self.decision(r, inputs, overrides, cache)
        for k in d["reqK"]:
            frame[k] = self.knowledge(k, inputs, overrides)
        v = coerce_builtin(d.get("type"), self.logic(d["logic"], F.Env([frame])))
        cache[name] = v
        return v

    # ---- entry point
    def invoke(self, name, ctx, overrides=None):
        """ctx: dict entry name -> value (the supplied input context)"""
        kind, x = self.idx[name]
        overrides = overrides or {}
        if kind == "decision":
            return self.decision(name, ctx, overrides, {})
        if kind == "bkm":
            f = self.bkm_function(x, ctx, overrides)
            return f.call(self.ref, [ctx.get(p) for p, _ in x["params"]])
        return self.service(x, ctx)


def evaluate(model, name, ctx, overrides=None, dev=()):
    """-> (value, fired deviation flags); raises Unspecified. `null_left_eq` in dev switches on the C01 deviation model."""
    del F.NULL_LEFT_EQ[1:]
    F.NULL_LEFT_EQ[0] = "null_left_eq" in dev
    ev = Evaluation(model, dev)
    try:
        v = ev.invoke(name, ctx, overrides)
        if contains_undetermined(v):
            raise Unspecified("value undetermined behind a modelled deviation")
        fired = set(ev.fired) | ({"null_left_eq"} if len(F.NULL_LEFT_EQ) > 1 else set())
        return v, fired
    except Unspecified as e:
        e.fired = set(ev.fired) | ({"null_left_eq"} if len(F.NULL_LEFT_EQ) > 1 else set())
        raise
    finally:
        F.NULL_LEFT_EQ[0] = False
        del F.NULL_LEFT_EQ[1:]


def norm(v):
    """reference value -> comparable value (functions compare by kind only)"""
    if isinstance(v, (F.Closure, F.Builtin, NativeFn)):
        return val.Fn()
    if isinstance(v, list):
        return [norm(x) for x in v]
    if isinstance(v, dict):
        return {k: norm(x) for k, x in v.items()}
    return v
