"""FEEL surface syntax: tree model, token renderer with parenthesis decisions, layout printer, reference
precedence parser over TOKEN LISTS, and a reader for Rust `{:?}` output of AstNode.

Nothing here comes from the code under test.  The binding table is transcribed from the declarations of
feel-grammar/src/feel.y (lines 72-87) by the rule "reduce when the rule's precedence is higher than the
look-ahead's, shift when lower, associativity when equal"; see DESIGN.md section 5, C06.

Tree model (JSON lists, first element is the kind):
  leaves   ["name", n]  ["num", before, after, style]  ["str", [[cp, form]...]]  ["strv", value]  ["bool", b]  ["null"]
           ["at", strleaf]  ["dt", fname, args]                    (date("..") and friends: a literal, usable as end point)
  binary   [op, l, r]  op in or and = != < <= > >= in + - * / **
  other    ["between", a, b, c] ["neg", e] ["instof", e, type] ["path", e, n] ["filter", e, f] ["call", f, args]
           ["if", c, t, e] ["for", [[v,"single",e] | [v,"range",e1,e2] ...], body] ["some"|"every", [[v, e]...], body]
           ["fn", [[p, type|None]...], body, external] ["list", [e...]] ["ctx", [[key, "name"|"str", e]...]]
           ["range", open, ep1, ep2, close] ["ut", op, ep] ["inlist", e, [e...]]
  args     ["pos", [e...]] | ["named", [[n, e]...]]
  endpoint ["qn", [n...]] | num | str | bool | at | dt
  types    ["tb", name] ["tqn", [n...]] ["tlist", t] ["trange", t] ["tctx", [[n, t]...]] ["tfn", [t...], t]
  unary-tests entry roots: ["irrelevant"] ["neglist", [e...]] ["exprlist", [e...]]
Tokens are lists [kind, text, value, tag]; kind in name num str kw lit dt type p.
"""

BINOPS = {"or": "Or", "and": "And", "=": "Eq", "!=": "Nq", "<": "Lt", "<=": "Le", ">": "Gt", ">=": "Ge", "in": "In",
          "+": "Add", "-": "Sub", "*": "Mul", "/": "Div", "**": "Exp"}
CMP = ("=", "!=", "<", "<=", ">", ">=")
WORD_OPS = ("or", "and", "in")
UT = {"<": "UnaryLt", "<=": "UnaryLe", ">": "UnaryGt", ">=": "UnaryGe"}
BUILTIN_TYPES = {"Any": "Any", "Null": "Null", "boolean": "Boolean", "number": "Number", "string": "String", "date": "Date",
                 "date and time": "DateTime", "time": "Time", "years and months duration": "YearsAndMonthsDuration",
                 "days and time duration": "DaysAndTimeDuration"}
DT_NAMES = ("date", "time", "date and time", "duration")
KEYWORDS = ("if", "then", "else", "for", "in", "return", "some", "every", "satisfies", "function", "external", "between", "and",
            "or", "instance", "of", "not", "true", "false", "null", "list", "range", "context")
# words never used as user names (keywords, lexer special cases, built-in type words)
RESERVED = set(KEYWORDS) | {"item", "partial", "date", "time", "duration", "number", "string", "boolean", "Any", "Null",
                            "years", "months", "days"}
ATOMS = ("name", "num", "str", "strv", "bool", "null", "at")
ESC = {10: "\\n", 13: "\\r", 9: "\\t", 34: "\\\"", 92: "\\\\", 39: "\\'"}


class Reject(Exception):
    """The reference parser does not accept the token list."""


# ------------------------------------------------------------------------------------------------
# Rust Debug reader
# ------------------------------------------------------------------------------------------------

def parse_debug(s):
    """`{:?}` text -> nested structure: Ctor(args) -> (name, *args); unit -> (name,); [..] -> list; "..." -> str;
    true/false -> bool; integers -> int; {k: v} -> ("{}", [(k, v)...]); Ctor { f: v } -> (name, ("{}", [(f, v)...]))."""
    pos = [0]
    n = len(s)

    def ws():
        while pos[0] < n and s[pos[0]] in " \n\t":
            pos[0] += 1

    def string():
        assert s[pos[0]] == '"'
        pos[0] += 1
        out = []
        while True:
            c = s[pos[0]]
            if c == '"':
                pos[0] += 1
                return "".join(out)
            if c == "\\":
                d = s[pos[0] + 1]
                pos[0] += 2
                if d == "u":
                    assert s[pos[0]] == "{"
                    e = s.index("}", pos[0])
                    out.append(chr(int(s[pos[0] + 1:e], 16)))
                    pos[0] = e + 1
                elif d == "x":
                    out.append(chr(int(s[pos[0]:pos[0] + 2], 16)))
                    pos[0] += 2
                else:
                    out.append({"n": "\n", "r": "\r", "t": "\t", "0": "\0", "\\": "\\", '"': '"', "'": "'"}[d])
            else:
                out.append(c)
                pos[0] += 1

    def seq(close):
        items = []
        ws()
        if s[pos[0]] == close:
            pos[0] += 1
            return items
        while True:
            items.append(value())
            ws()
            c = s[pos[0]]
            pos[0] += 1
            if c == close:
                return items
            assert c == ",", "expected , at %d in %r" % (pos[0], s[:200])
            ws()
            if s[pos[0]] == close:       # trailing comma of pretty output
                pos[0] += 1
                return items

    def mapping():
        items = []
        ws()
        if s[pos[0]] == "}":
            pos[0] += 1
            return items
        while True:
            k = value()
            ws()
            assert s[pos[0]] == ":"
            pos[0] += 1
            v = value()
            items.append((k, v))
            ws()
            c = s[pos[0]]
            pos[0] += 1
            if c == "}":
                return items
            assert c == ","
            ws()
            if s[pos[0]] == "}":
                pos[0] += 1
                return items

    def value():
        ws()
        c = s[pos[0]]
        if c == '"':
            return string()
        if c == "[":
            pos[0] += 1
            return seq("]")
        if c == "(":
            pos[0] += 1
            return ("()",) + tuple(seq(")"))
        if c == "{":
            pos[0] += 1
            return ("{}", mapping())
        if c == "'":
            e = s.index("'", pos[0] + 2 if s[pos[0] + 1] == "\\" else pos[0] + 1)
            body = s[pos[0] + 1:e]
            pos[0] = e + 1
            return ("char", body)
        if c.isdigit() or (c == "-" and s[pos[0] + 1].isdigit()):
            b = pos[0]
            pos[0] += 1
            while pos[0] < n and (s[pos[0]].isdigit() or s[pos[0]] in "._eE+-"):
                pos[0] += 1
            t = s[b:pos[0]]
            try:
                return int(t)
            except ValueError:
                return ("num", t)
        b = pos[0]
        while pos[0] < n and (s[pos[0]].isalnum() or s[pos[0]] in "_:"):
            pos[0] += 1
        ident = s[b:pos[0]]
        assert ident, "unexpected %r at %d in %r" % (c, pos[0], s[:200])
        if ident == "true":
            return True
        if ident == "false":
            return False
        save = pos[0]
        ws()
        if pos[0] < n and s[pos[0]] == "(":
            pos[0] += 1
            return (ident,) + tuple(seq(")"))
        if pos[0] < n and s[pos[0]] == "{":
            pos[0] += 1
            return (ident, ("{}", mapping()))
        pos[0] = save
        return (ident,)

    v = value()
    ws()
    assert pos[0] == n, "trailing text at %d in %r" % (pos[0], s[:200])
    return v


# ------------------------------------------------------------------------------------------------
# strings and numbers
# ------------------------------------------------------------------------------------------------

def str_value(chars):
    return "".join(chr(cp) for cp, _ in chars)


def spell_cp(cp, form):
    if form == "raw":
        return chr(cp)
    if form == "esc":
        return ESC[cp]
    low = form.endswith("l")
    f = form[:-1] if low else form
    hx = (lambda v, w: ("%0*x" if low else "%0*X") % (w, v))
    if f == "u4":
        return "\\u" + hx(cp, 4)
    if f == "U6":
        return "\\U" + hx(cp, 6)
    if f == "sp":
        v = cp - 0x10000
        return "\\u" + hx(0xD800 + (v >> 10), 4) + "\\u" + hx(0xDC00 + (v & 0x3FF), 4)
    raise ValueError(form)


def forms_for(cp):
    """All spellings a scalar value has in a FEEL string literal."""
    out = []
    if cp not in (34, 92) and not 10 <= cp <= 13:
        out.append("raw")
    if cp in ESC:
        out.append("esc")
    if cp <= 0xFFFF:
        out += ["u4", "u4l"]
    else:
        out += ["sp", "spl"]
    out += ["U6", "U6l"]
    return out


def str_text(chars):
    return '"' + "".join(spell_cp(cp, f) for cp, f in chars) + '"'


def sp_defect_trigger(chars):
    """Code points whose surrogate-pair spelling has bit 6 set (the low-byte mask defect, DESIGN 6.14)."""
    return [cp for cp, f in chars if f in ("sp", "spl") and cp & 0x40]


def num_text(n):
    before, after, style = n[1], n[2], (n[3] if len(n) > 3 else "plain")
    if style == "dot":
        return "." + after
    return before + ("." + after if after else "")


# ------------------------------------------------------------------------------------------------
# shape: model tree -> the structure parse_debug gives for the AstNode
# ------------------------------------------------------------------------------------------------

def _name(n):
    return ("Name", ("Name", n))


def shape_type(t):
    k = t[0]
    if k == "tb":
        return ("FeelType", (BUILTIN_TYPES[t[1]],))
    if k == "tqn":
        return ("QualifiedName", [("QualifiedNameSegment", ("Name", n)) for n in t[1]])
    if k == "tlist":
        return ("ListType", shape_type(t[1]))
    if k == "trange":
        return ("RangeType", shape_type(t[1]))
    if k == "tctx":
        return ("ContextType", [("ContextTypeEntry", ("ContextTypeEntryKey", ("Name", n)), shape_type(x)) for n, x in t[1]])
    if k == "tfn":
        return ("FunctionType", ("ParameterTypes", [shape_type(x) for x in t[1]]), shape_type(t[2]))
    raise ValueError(t)


def shape_args(a):
    if a[0] == "pos":
        return ("PositionalParameters", [shape(x) for x in a[1]])
    return ("NamedParameters", [("NamedParameter", ("ParameterName", ("Name", n)), shape(x)) for n, x in a[1]])


def shape(t):
    k = t[0]
    if k == "name":
        return _name(t[1])
    if k == "num":
        return ("Numeric", t[1], t[2])
    if k == "str":
        return ("String", str_value(t[1]))
    if k == "strv":
        return ("String", t[1])
    if k == "bool":
        return ("Boolean", bool(t[1]))
    if k == "null":
        return ("Null",)
    if k == "at":
        return ("At", shape(t[1])[1])
    if k == "dt":
        return ("FunctionInvocation", _name(t[1]), shape_args(t[2]))
    if k in BINOPS:
        return (BINOPS[k], shape(t[1]), shape(t[2]))
    if k == "between":
        return ("Between", shape(t[1]), shape(t[2]), shape(t[3]))
    if k == "neg":
        return ("Neg", shape(t[1]))
    if k == "instof":
        return ("InstanceOf", shape(t[1]), shape_type(t[2]))
    if k == "path":
        return ("Path", shape(t[1]), _name(t[2]))
    if k == "filter":
        return ("Filter", shape(t[1]), shape(t[2]))
    if k == "call":
        return ("FunctionInvocation", shape(t[1]), shape_args(t[2]))
    if k == "if":
        return ("If", shape(t[1]), shape(t[2]), shape(t[3]))
    if k == "for":
        ctxs = []
        for c in t[1]:
            if c[1] == "single":
                ctxs.append(("IterationContextSingle", _name(c[0]), shape(c[2])))
            else:
                ctxs.append(("IterationContextRange", _name(c[0]), shape(c[2]), shape(c[3])))
        return ("For", ("IterationContexts", ctxs), ("EvaluatedExpression", shape(t[2])))
    if k in ("some", "every"):
        q = [("QuantifiedContext", _name(v), shape(e)) for v, e in t[1]]
        return ("Some" if k == "some" else "Every", ("QuantifiedContexts", q), ("Satisfies", shape(t[2])))
    if k == "fn":
        ps = [("FormalParameter", ("ParameterName", ("Name", p)), shape_type(ty) if ty else ("FeelType", ("Any",))) for p, ty in t[1]]
        return ("FunctionDefinition", ("FormalParameters", ps), ("FunctionBody", shape(t[2]), bool(t[3])))
    if k == "list":
        return ("List", [shape(x) for x in t[1]])
    if k == "ctx":
        out = []
        for key, kind, e in t[1]:
            kn = key if kind == "name" else (str_value(key[1]) if key[0] == "str" else key[1])
            out.append(("ContextEntry", ("ContextEntryKey", ("Name", kn)), shape(e)))
        return ("Context", out)
    if k == "range":
        return ("Range", ("IntervalStart", shape(t[2]), t[1] == "["), ("IntervalEnd", shape(t[3]), t[4] == "]"))
    if k == "ut":
        return (UT[t[1]], shape(t[2]))
    if k == "qn":
        return ("QualifiedName", [("QualifiedNameSegment", ("Name", n)) for n in t[1]])
    if k == "inlist":
        return ("In", shape(t[1]), ("ExpressionList", [shape(x) for x in t[2]]))
    if k == "irrelevant":
        return ("Irrelevant",)
    if k == "neglist":
        return ("NegatedList", [shape(x) for x in t[1]])
    if k == "exprlist":
        return ("ExpressionList", [shape(x) for x in t[1]])
    raise ValueError("shape: %r" % (t,))


# ------------------------------------------------------------------------------------------------
# slots (expression positions) and paths
# ------------------------------------------------------------------------------------------------

def slots(n):
    """Children of n that stand in `expression` positions (each may be wrapped in parentheses), in rendering order."""
    k = n[0]
    if k in BINOPS:
        return [n[1], n[2]]
    if k == "between":
        return [n[1], n[2], n[3]]
    if k in ("neg", "instof", "path"):
        return [n[1]]
    if k == "filter":
        return [n[1], n[2]]
    if k == "call":
        return [n[1]] + _arg_exprs(n[2])
    if k == "dt":
        return _arg_exprs(n[2])
    if k == "if":
        return [n[1], n[2], n[3]]
    if k == "for":
        out = []
        for c in n[1]:
            out.extend(c[2:])
        return out + [n[2]]
    if k in ("some", "every"):
        return [e for _, e in n[1]] + [n[2]]
    if k == "fn":
        return [n[2]]
    if k in ("list", "neglist", "exprlist"):
        return list(n[1])
    if k == "ctx":
        return [e for _, _, e in n[1]]
    if k == "inlist":
        return [n[1]] + list(n[2])
    return []


def _arg_exprs(a):
    return list(a[1]) if a[0] == "pos" else [e for _, e in a[1]]


def with_slots(n, new):
    """Copy of n with its slots replaced by the list `new` (same order as slots(n))."""
    k = n[0]
    it = iter(new)
    if k in BINOPS:
        return [k, next(it), next(it)]
    if k == "between":
        return [k, next(it), next(it), next(it)]
    if k == "neg":
        return [k, next(it)]
    if k in ("instof", "path"):
        return [k, next(it), n[2]]
    if k == "filter":
        return [k, next(it), next(it)]
    if k == "call":
        f = next(it)
        return [k, f, _with_args(n[2], it)]
    if k == "dt":
        return [k, n[1], _with_args(n[2], it)]
    if k == "if":
        return [k, next(it), next(it), next(it)]
    if k == "for":
        ctxs = []
        for c in n[1]:
            ctxs.append([c[0], c[1]] + [next(it) for _ in c[2:]])
        return [k, ctxs, next(it)]
    if k in ("some", "every"):
        q = [[v, next(it)] for v, _ in n[1]]
        return [k, q, next(it)]
    if k == "fn":
        return [k, n[1], next(it), n[3]]
    if k in ("list", "neglist", "exprlist"):
        return [k, [next(it) for _ in n[1]]]
    if k == "ctx":
        return [k, [[key, kind, next(it)] for key, kind, _ in n[1]]]
    if k == "inlist":
        e = next(it)
        return [k, e, [next(it) for _ in n[2]]]
    return n


def _with_args(a, it):
    if a[0] == "pos":
        return ["pos", [next(it) for _ in a[1]]]
    return ["named", [[nm, next(it)] for nm, _ in a[1]]]


def pkey(path):
    return ".".join(str(i) for i in path)


def is_atom(n):
    return n[0] in ATOMS


def compound_paths(tree, entry="expression"):
    """Keys of all expression positions holding a non-atomic node (the pairs of a fully parenthesised rendering).
    dt literals count as atoms here (they are literals of the grammar); the root of a unary-tests list is not a position."""
    out = []

    def walk(n, path, is_pos):
        if is_pos and not is_atom(n) and n[0] != "dt":
            out.append(pkey(path))
        for i, c in enumerate(slots(n)):
            walk(c, path + (i,), True)

    walk(tree, (), tree[0] not in ("irrelevant", "neglist", "exprlist"))
    return out


def all_paths(tree):
    out = []

    def walk(n, path, is_pos):
        if is_pos:
            out.append(pkey(path))
        for i, c in enumerate(slots(n)):
            walk(c, path + (i,), True)

    walk(tree, (), tree[0] not in ("irrelevant", "neglist", "exprlist"))
    return out


def depth(n):
    s = slots(n)
    return 1 + (max(depth(c) for c in s) if s else 0)


def size(n):
    return 1 + sum(size(c) for c in slots(n))


def ops_of(n, out=None):
    out = [] if out is None else out
    out.append(n[0])
    for c in slots(n):
        ops_of(c, out)
    return out


# ------------------------------------------------------------------------------------------------
# renderer
# ------------------------------------------------------------------------------------------------

def P(t):
    return ["p", t, None, ""]


def KW(t):
    return ["kw", t, None, ""]


def NAME(t, tag=""):
    return ["name", t, None, tag]


def _leaf_tokens(n):
    k = n[0]
    if k == "name":
        return [NAME(n[1])]
    if k == "num":
        return [["num", num_text(n), [n[1], n[2]], ""]]
    if k == "str":
        return [["str", str_text(n[1]), str_value(n[1]), "spbad" if sp_defect_trigger(n[1]) else ""]]
    if k == "strv":
        chars = [[ord(c), "esc" if ord(c) in ESC else "raw"] for c in n[1]]
        return [["str", str_text(chars), n[1], ""]]
    if k == "bool":
        return [["lit", "true" if n[1] else "false", None, ""]]
    if k == "null":
        return [["lit", "null", None, ""]]
    if k == "at":
        return [P("@")] + _leaf_tokens(n[1])
    raise ValueError(n)


def render_type(t, first=True):
    """Tokens of a type; the first token of every `type` nonterminal is tagged 'tstart' (the parser asks the lexer for a
    type name there)."""
    k = t[0]
    if k == "tb":
        toks = [["type", t[1], None, ""]]
    elif k == "tqn":
        toks = []
        for i, n in enumerate(t[1]):
            if i:
                toks.append(P("."))
            toks.append(NAME(n))
    elif k in ("tlist", "trange"):
        toks = [KW("list" if k == "tlist" else "range"), P("<")] + render_type(t[1]) + [P(">")]
    elif k == "tctx":
        toks = [KW("context"), P("<")]
        for i, (n, x) in enumerate(t[1]):
            if i:
                toks.append(P(","))
            toks += [NAME(n), P(":")] + render_type(x)
        toks.append(P(">"))
    elif k == "tfn":
        toks = [KW("function"), P("<")]
        for i, x in enumerate(t[1]):
            if i:
                toks.append(P(","))
            toks += render_type(x)
        toks += [P(">"), P("->")] + render_type(t[2])
    else:
        raise ValueError(t)
    toks[0] = toks[0][:3] + ["tstart"]
    return toks


def render_endpoint(e):
    if e[0] == "qn":
        toks = []
        for i, n in enumerate(e[1]):
            if i:
                toks.append(P("."))
            toks.append(NAME(n))
        return toks
    if e[0] == "dt":
        return render(e, frozenset())
    return _leaf_tokens(e)


def render(n, parens=frozenset(), path=()):
    """Token list of tree n; `parens` is the set of path keys (see pkey) whose node is wrapped in ( )."""
    k = n[0]
    ch = slots(n)

    def S(i):
        p = path + (i,)
        toks = render(ch[i], parens, p)
        if pkey(p) in parens:
            return [P("(")] + toks + [P(")")]
        return toks

    def args(a, base):
        toks = [P("(")]
        if a[0] == "pos":
            for i in range(len(a[1])):
                if i:
                    toks.append(P(","))
                toks += S(base + i)
        else:
            for i, (nm, _) in enumerate(a[1]):
                if i:
                    toks.append(P(","))
                toks += [NAME(nm), P(":")] + S(base + i)
        toks.append(P(")"))
        return toks

    if k in ATOMS:
        out = _leaf_tokens(n)
    elif k in BINOPS:
        out = S(0) + [KW(k) if k in WORD_OPS else P(k)] + S(1)
    elif k == "between":
        out = S(0) + [KW("between")] + S(1) + [KW("and")] + S(2)
    elif k == "neg":
        out = [P("-")] + S(0)
    elif k == "instof":
        out = S(0) + [KW("instance"), KW("of")] + render_type(n[2])
    elif k == "path":
        out = S(0) + [P("."), NAME(n[2])]
    elif k == "filter":
        out = S(0) + [P("[")] + S(1) + [P("]")]
    elif k == "call":
        out = S(0) + args(n[2], 1)
    elif k == "dt":
        out = [["dt", n[1], None, ""]] + args(n[2], 0)
    elif k == "if":
        out = [KW("if")] + S(0) + [KW("then")] + S(1) + [KW("else")] + S(2)
    elif k == "for":
        out = [KW("for")]
        i = 0
        for j, c in enumerate(n[1]):
            if j:
                out.append(P(","))
            out += [NAME(c[0], "var"), KW("in")] + S(i)
            i += 1
            if c[1] == "range":
                out += [P("..")] + S(i)
                i += 1
        out += [KW("return")] + S(i)
    elif k in ("some", "every"):
        out = [KW(k)]
        for j, (v, _) in enumerate(n[1]):
            if j:
                out.append(P(","))
            out += [NAME(v, "var"), KW("in")] + S(j)
        out += [KW("satisfies")] + S(len(n[1]))
    elif k == "fn":
        out = [KW("function"), P("(")]
        for j, (p, ty) in enumerate(n[1]):
            if j:
                out.append(P(","))
            out.append(NAME(p))
            if ty:
                out += [P(":")] + render_type(ty)
        out.append(P(")"))
        if n[3]:
            out.append(KW("external"))
        out += S(0)
    elif k == "list":
        out = [P("[")]
        for i in range(len(ch)):
            if i:
                out.append(P(","))
            out += S(i)
        out.append(P("]"))
    elif k == "ctx":
        out = [P("{")]
        for i, (key, kind, _) in enumerate(n[1]):
            if i:
                out.append(P(","))
            out += ([NAME(key)] if kind == "name" else _leaf_tokens(key)) + [P(":")] + S(i)
        out.append(P("}"))
    elif k == "range":
        out = [P(n[1])] + render_endpoint(n[2]) + [P("..")] + render_endpoint(n[3]) + [P(n[4])]
    elif k == "ut":
        out = [P(n[1])] + render_endpoint(n[2])
    elif k == "inlist":
        out = S(0) + [KW("in"), P("(")]
        for i in range(len(n[2])):
            if i:
                out.append(P(","))
            out += S(1 + i)
        out.append(P(")"))
    elif k == "irrelevant":
        out = [P("-")]
    elif k == "neglist":
        out = [KW("not"), P("(")]
        for i in range(len(ch)):
            if i:
                out.append(P(","))
            out += S(i)
        out.append(P(")"))
    elif k == "exprlist":
        out = []
        for i in range(len(ch)):
            if i:
                out.append(P(","))
            out += S(i)
    else:
        raise ValueError("render: %r" % (n,))
    if path == () and "" in parens:
        out = [P("(")] + out + [P(")")]
    return out


# ------------------------------------------------------------------------------------------------
# layout
# ------------------------------------------------------------------------------------------------

BR = ("(", ")", "[", "]", "{", "}", ",", ":")
MERGE = ("..", "**", "!=", "<=", ">=", "->", "//", "/*", "*/", "<-")
SYMBOL_START = "./-'+*"      # the lexer glues these to an unbound name in front of them


def touch_ok(a, b):
    """May token a be directly followed by token b without any separator, token boundaries staying evident?"""
    ka, ta, kb, tb = a[0], a[1], b[0], b[1]
    if ka == "kw":
        return False
    if ka == "dt":
        return kb == "p" and tb == "("
    if ka == "type":
        return kb == "p" and tb[0] not in SYMBOL_START and tb[0] in ">,)]}=<!:"
    if ka == "name":
        return kb == "p" and (tb in BR or tb in (".", ".."))
    if ka == "lit":
        return kb == "p" and tb in (")", "]", "}", ",", "[")
    if kb in ("name", "lit", "kw", "dt", "type"):
        if ka != "p":
            return False
        return ta in BR or (ta in (".", "..") and kb == "name")
    if ka == "num" and kb == "num":
        return False
    if ka == "num" and kb == "p" and tb[0] == ".":
        return tb == ".."
    if ka == "p" and kb == "num":
        if ta[-1] == ".":
            return ta == ".." and tb[0] != "."
        return True
    if ka == "p" and kb == "p":
        return (ta[-1] + tb[0]) not in MERGE
    return True


def unsafe_type_follow(tokens):
    """Indexes of built-in type-name tokens followed by a token the lexer would glue to the (unbound) type name."""
    out = []
    for i, t in enumerate(tokens[:-1]):
        if t[0] == "type":
            nxt = tokens[i + 1]
            if nxt[0] != "p" or nxt[1][0] in SYMBOL_START:
                out.append(i)
    return out


def canonical_gaps(tokens):
    return [""] + [" "] * (len(tokens) - 1) + [""] if tokens else [""]


def tight_gaps(tokens):
    g = [""]
    for i in range(len(tokens) - 1):
        g.append("" if touch_ok(tokens[i], tokens[i + 1]) else " ")
    return g + [""]


def layout_text(tokens, gaps=None):
    gaps = gaps or canonical_gaps(tokens)
    out = [gaps[0]]
    for i, t in enumerate(tokens):
        out.append(t[1])
        out.append(gaps[i + 1])
    return "".join(out)


WS_COMMON = [" ", "  ", "   ", "\t", "\n", "\r\n", " \n  ", "\n\n"]
# every code point of the lexer's white-space rule that is NOT also a name character of the FEEL grammar. U+1680, U+180E and U+FEFF are
# both white space and name start characters in the grammar (rules 28 and 62 overlap), so a layout using them next to a name does
# not preserve tokens in a defined way: they are left out (DESIGN 9.7).
WS_RARE = ["\u00a0", "\u2003", "\u3000", "\u2028", "\u000b", "\u000c", "\u0085", "\r", "\u2000", "\u2001", "\u2002", "\u2004", "\u2005",
           "\u2006", "\u2007", "\u2008", "\u2009", "\u200a", "\u200b", "\u2029", "\u202f", "\u205f"]
COMMENT_BODIES = ["", " c ", "x", " and ", " ) ", " \" ", " // ", " * ", " / ", "**", " if then else ", " é\U0001f640 ", " 1 + 2 ", "-",
                  # bodies that begin or end with a character of the comment delimiters themselves
                  "/", "/ c ", "/x", "*", "* c", "/*", " c /", " c *", "//", "/ * /"]


def gen_comment(src):
    body = src.choice(COMMENT_BODIES)
    if src.bool(0.5):
        return "/*" + body.replace("*/", "* /") + "*/"
    return "//" + body + src.choice(["\n", "\r\n"])


def gen_ws(src, rare=0.05):
    if src.bool(rare):
        return src.choice(WS_RARE)
    return src.choice(WS_COMMON)


LOOKAHEAD_KW = ("function", "list", "range", "context")   # keywords the lexer recognises by peeking at the next token


def gen_gaps(src, tokens, comments=0.15, multi=0.0, var_comment=0.0, look_comment=0.0, tight=0.3, rare_ws=0.05):
    """A token-preserving layout. Returns (gaps, info); info counts comments and names the gaps that are in the trigger
    set of an already known lexer defect ('multi': several comments in one gap, 'var': a comment between an iteration
    variable and `in`, 'look': a comment between function/list/range/context and the `(` or `<` after it)."""
    n = len(tokens)
    gaps = []
    info = {"comments": 0, "multi": [], "var": [], "look": [], "tight": 0}
    for g in range(n + 1):
        prev = tokens[g - 1] if g > 0 else None
        nxt = tokens[g] if g < n else None
        edge = prev is None or nxt is None
        ws_only = prev is not None and prev[0] in ("type", "dt")
        after_var = prev is not None and prev[0] == "name" and prev[3] == "var"
        after_look = prev is not None and prev[0] == "kw" and prev[1] in LOOKAHEAD_KW
        may_empty = edge or touch_ok(prev, nxt)
        must_ws_first = prev is not None and (prev[0] == "kw" or prev[1][-1] in "/*")
        if may_empty and src.bool(tight if not edge else 0.6):
            gaps.append("")
            if not edge:
                info["tight"] += 1
            continue
        pieces = [gen_ws(src, rare_ws)]
        ncom = 0
        if not ws_only:
            p = var_comment if after_var else look_comment if after_look else comments
            if src.bool(p):
                ncom = 1
                if not after_var and not after_look and src.bool(multi):
                    ncom = src.int(2, 3)
        for _ in range(ncom):
            pieces.append(gen_comment(src))
            if src.bool(0.6):
                pieces.append(gen_ws(src, rare_ws))
        if ncom and not must_ws_first and src.bool(0.3):
            pieces = pieces[1:]          # comment directly after the token
        text = "".join(pieces)
        if not text:
            text = " "
        gaps.append(text)
        info["comments"] += ncom
        if ncom >= 2:
            info["multi"].append(g)
        if ncom and after_var:
            info["var"].append(g)
        if ncom and after_look:
            info["look"].append(g)
    return gaps, info


def strip_gaps(gaps, which, keep_comments=0):
    """Neutralise gaps `which`: keep only the first `keep_comments` comments, replace the rest by one blank."""
    out = list(gaps)
    for g in which:
        text = gaps[g]
        res, i, kept = [], 0, 0
        while i < len(text):
            if text.startswith("/*", i):
                e = text.index("*/", i + 2) + 2     # searched after the opener: "/*/" does not close itself
                if kept < keep_comments:
                    res.append(text[i:e])
                    kept += 1
                else:
                    res.append(" ")
                i = e
            elif text.startswith("//", i):
                e = text.index("\n", i) + 1
                if kept < keep_comments:
                    res.append(text[i:e])
                    kept += 1
                else:
                    res.append(" ")
                i = e
            else:
                res.append(text[i])
                i += 1
        out[g] = "".join(res)
    return out


# ------------------------------------------------------------------------------------------------
# reference parser (precedence climbing over the token list)
# ------------------------------------------------------------------------------------------------

# binding powers = rows of the %left/%right/%nonassoc/%precedence block of feel.y, bottom row binds tightest
LBP = {"or": 3, "and": 4, "cmp": 5, "between": 6, "in": 8, "add": 9, "mul": 10, "exp": 11, "instance": 13, "(": 15, "[": 15, ".": 16}
NEG_OPERAND = 13          # %prec PREC_NEG (row 12): only rows above it continue the operand
BETWEEN_RIGHT = 8         # rule precedence = BETWEEN_AND (row 7): only rows above it continue the right operand
EOF = ["eof", "", None, ""]


def and_labels_flag(tokens):
    """The labelling a single boolean gives (set by `between`, cleared by the next `and`, blind to nesting)."""
    labels = {}
    flag = False
    for i, t in enumerate(tokens):
        if t[0] == "kw" and t[1] == "between":
            flag = True
        elif t[0] == "kw" and t[1] == "and":
            labels[i] = "band" if flag else "and"
            flag = False
    return labels


class Ref:
    def __init__(self, tokens, labels=None):
        """labels None: an `and` closes the innermost `between` whose middle operand is being read inside the same bracket
        pair (nesting-aware). labels given ({index: 'band'|'and'}): the tokens arrive labelled, as from a lexer."""
        self.t = tokens
        self.i = 0
        self.labels = labels
        self.marks = []          # 'B' = reading the middle operand of a between; '|' = an opened bracket pair

    # -- token access
    def peek(self, k=0):
        j = self.i + k
        return self.t[j] if j < len(self.t) else EOF

    def isp(self, text, k=0):
        t = self.peek(k)
        return t[0] == "p" and t[1] == text

    def iskw(self, text, k=0):
        t = self.peek(k)
        return t[0] == "kw" and t[1] == text

    def next(self):
        t = self.peek()
        self.i += 1
        return t

    def expect_p(self, text):
        if not self.isp(text):
            raise Reject("expected %s at %d" % (text, self.i))
        self.i += 1

    def expect_kw(self, text):
        if not self.iskw(text):
            raise Reject("expected %s at %d" % (text, self.i))
        self.i += 1

    def expect_name(self):
        t = self.peek()
        if t[0] != "name":
            raise Reject("expected a name at %d" % self.i)
        self.i += 1
        return t[1]

    def is_band(self):
        if not self.iskw("and"):
            return False
        if self.labels is not None:
            return self.labels.get(self.i) == "band"
        return bool(self.marks) and self.marks[-1] == "B"

    def bracketed(self, fn, *a):
        """Runs fn inside a bracket pair: an enclosing between does not see the `and`s in there."""
        self.marks.append("|")
        depth = len(self.marks)
        r = fn(*a)
        del self.marks[depth - 1:]
        return r

    # -- entries
    def parse(self, entry="expression"):
        if entry == "unary":
            r = self.unary_tests()
        else:
            r = self.expression(0)
        if self.peek()[0] != "eof":
            raise Reject("trailing tokens at %d" % self.i)
        return r

    def unary_tests(self):
        if self.isp("-") and self.peek(1)[0] == "eof":
            self.i += 1
            return ["irrelevant"]
        lead = self.peek()
        if self.iskw("not") or (lead[0] == "name" and lead[1] == "not" and self.isp("(", 1)):
            # at the very beginning of unary tests `not (` is the negation; everywhere else `not` is the name of the built-in function
            self.i += 1
            self.expect_p("(")
            items = self.bracketed(self.expr_list)
            self.expect_p(")")
            return ["neglist", items]
        return ["exprlist", self.expr_list()]

    def expr_list(self):
        items = [self.expression(0)]
        while self.isp(","):
            self.i += 1
            items.append(self.expression(0))
        return items

    # -- expressions
    def classify(self):
        t = self.peek()
        if t[0] == "p":
            x = t[1]
            if x in ("+", "-"):
                return "add"
            if x in ("*", "/"):
                return "mul"
            if x == "**":
                return "exp"
            if x in CMP:
                return "cmp"
            if x in ("(", "[", "."):
                return x
        elif t[0] == "kw":
            x = t[1]
            if x in ("or", "in", "between", "instance"):
                return x
            if x == "and":
                return None if self.is_band() else "and"
        return None

    def expression(self, minbp):
        left = self.prefix()
        after_cmp = False
        while True:
            kind = self.classify()
            if kind is None:
                break
            lbp = LBP[kind]
            if lbp < minbp:
                break
            if kind == "cmp":
                if after_cmp:
                    raise Reject("comparison operators do not associate (at %d)" % self.i)
                op = self.next()[1]
                left = [op, left, self.expression(lbp + 1)]
                after_cmp = True
                continue
            after_cmp = False
            if kind in ("or", "and", "add", "mul", "exp"):
                op = self.next()[1]
                left = [op, left, self.expression(lbp + 1)]      # all %left (including **)
            elif kind == "between":
                self.i += 1
                self.marks.append("B")
                depth = len(self.marks)
                mid = self.expression(0)
                if not self.is_band():
                    raise Reject("expected the `and` of between at %d" % self.i)
                del self.marks[depth - 1:]
                self.i += 1
                left = ["between", left, mid, self.expression(BETWEEN_RIGHT)]
            elif kind == "in":
                self.i += 1
                lst = self.try_in_list() if self.isp("(") else None
                if lst is not None:
                    left = ["inlist", left, lst]
                else:
                    left = ["in", left, self.expression(lbp)]       # %right
            elif kind == "instance":
                self.i += 1
                self.expect_kw("of")
                left = ["instof", left, self.type()]
            elif kind == ".":
                self.i += 1
                left = ["path", left, self.expect_name()]
            elif kind == "[":
                self.i += 1
                f = self.bracketed(self.expression, 0)
                self.expect_p("]")
                left = ["filter", left, f]
            elif kind == "(":
                self.i += 1
                left = ["call", left, self.bracketed(self.parameters)]
        return left

    def try_in_list(self):
        """`e in ( e , e ... )`; None (position restored) when no comma follows the first expression in the parenthesis."""
        save, marks = self.i, list(self.marks)
        self.expect_p("(")
        self.marks.append("|")
        first = self.expression(0)
        if not self.isp(","):
            self.i, self.marks = save, marks
            return None
        self.i += 1
        items = [first] + self.expr_list()
        self.expect_p(")")
        self.marks = marks
        return items

    def parameters(self):
        if self.isp(")"):
            self.i += 1
            return ["pos", []]
        if self.peek()[0] == "name" and self.isp(":", 1):
            out = []
            while True:
                n = self.expect_name()
                self.expect_p(":")
                out.append([n, self.expression(0)])
                if self.isp(","):
                    self.i += 1
                    continue
                self.expect_p(")")
                return ["named", out]
        items = self.expr_list()
        self.expect_p(")")
        return ["pos", items]

    def endpoint(self):
        t = self.peek()
        if t[0] == "name":
            names = [self.expect_name()]
            while self.isp(".") and self.peek(1)[0] == "name":
                self.i += 1
                names.append(self.expect_name())
            return ["qn", names]
        if t[0] == "num":
            self.i += 1
            return ["num", t[2][0], t[2][1]]
        if t[0] == "str":
            self.i += 1
            return ["strv", t[2]]
        if t[0] == "lit" and t[1] in ("true", "false"):
            self.i += 1
            return ["bool", t[1] == "true"]
        if t[0] == "p" and t[1] == "@" and self.peek(1)[0] == "str":
            self.i += 2
            return ["at", ["strv", self.t[self.i - 1][2]]]
        if t[0] == "dt" and self.isp("(", 1):
            self.i += 2
            return ["dt", t[1], self.bracketed(self.parameters)]
        raise Reject("expected an end point at %d" % self.i)

    def endpoint_starts(self, k=0):
        t = self.peek(k)
        return t[0] in ("name", "num", "str", "dt") or (t[0] == "lit" and t[1] != "null") or (t[0] == "p" and t[1] == "@")

    def interval_tail(self, opener):
        ep1 = self.endpoint()
        self.expect_p("..")
        ep2 = self.endpoint()
        t = self.peek()
        if t[0] == "p" and t[1] in (")", "]", "["):
            self.i += 1
            return ["range", opener, ep1, ep2, t[1]]
        raise Reject("expected the end of an interval at %d" % self.i)

    def try_interval(self, opener):
        """After `(` or `[` in operand position: an interval iff a simple value and `..` follow."""
        save, marks = self.i, list(self.marks)
        try:
            self.endpoint()
            ok = self.isp("..")
        except Reject:
            ok = False
        self.i, self.marks = save, marks
        if ok:
            return self.interval_tail(opener)
        return None

    def prefix(self):
        t = self.peek()
        k, x = t[0], t[1]
        if k == "name":
            self.i += 1
            return ["name", x]
        if k == "num":
            self.i += 1
            return ["num", t[2][0], t[2][1]]
        if k == "str":
            self.i += 1
            return ["strv", t[2]]
        if k == "lit":
            self.i += 1
            return ["null"] if x == "null" else ["bool", x == "true"]
        if k == "dt":
            self.i += 1
            self.expect_p("(")
            return ["dt", x, self.bracketed(self.parameters)]
        if k == "p":
            if x == "@":
                self.i += 1
                s = self.peek()
                if s[0] != "str":
                    raise Reject("expected a string after @")
                self.i += 1
                return ["at", ["strv", s[2]]]
            if x == "-":
                self.i += 1
                return ["neg", self.expression(NEG_OPERAND)]
            if x == "(":
                self.i += 1
                r = self.try_interval("(")
                if r is not None:
                    return r
                e = self.bracketed(self.expression, 0)
                self.expect_p(")")
                return e
            if x == "[":
                self.i += 1
                r = self.try_interval("[")
                if r is not None:
                    return r
                if self.isp("]") and not self.endpoint_starts(1):
                    self.i += 1
                    return ["list", []]
                items = self.bracketed(self.expr_list)     # `[ ]a..b[ ]`: a `]` followed by a simple value opens an interval
                self.expect_p("]")
                return ["list", items]
            if x == "]":
                self.i += 1
                return self.interval_tail("]")
            if x == "{":
                self.i += 1
                return self.bracketed(self.context)
            if x in UT:
                self.i += 1
                return ["ut", x, self.endpoint()]
            raise Reject("unexpected %s at %d" % (x, self.i))
        if k == "kw":
            if x == "if":
                self.i += 1
                c = self.expression(0)
                self.expect_kw("then")
                a = self.expression(0)
                self.expect_kw("else")
                return ["if", c, a, self.expression(0)]
            if x == "for":
                self.i += 1
                ctxs = []
                while True:
                    v = self.expect_name()
                    self.expect_kw("in")
                    e1 = self.expression(0)
                    if self.isp(".."):
                        self.i += 1
                        ctxs.append([v, "range", e1, self.expression(0)])
                    else:
                        ctxs.append([v, "single", e1])
                    if self.isp(","):
                        self.i += 1
                        continue
                    break
                self.expect_kw("return")
                return ["for", ctxs, self.expression(0)]
            if x in ("some", "every"):
                self.i += 1
                q = []
                while True:
                    v = self.expect_name()
                    self.expect_kw("in")
                    q.append([v, self.expression(0)])
                    if self.isp(","):
                        self.i += 1
                        continue
                    break
                self.expect_kw("satisfies")
                return [x, q, self.expression(0)]
            if x == "function":
                self.i += 1
                self.expect_p("(")
                ps = []
                if self.isp(")"):
                    self.i += 1
                else:
                    while True:
                        p = self.expect_name()
                        ty = None
                        if self.isp(":"):
                            self.i += 1
                            ty = self.type()
                        ps.append([p, ty])
                        if self.isp(","):
                            self.i += 1
                            continue
                        self.expect_p(")")
                        break
                ext = False
                if self.iskw("external"):
                    self.i += 1
                    ext = True
                return ["fn", ps, self.expression(0), ext]
        raise Reject("unexpected %r at %d" % (x, self.i))

    def context(self):
        if self.isp("}"):
            self.i += 1
            return ["ctx", []]
        out = []
        while True:
            t = self.peek()
            if t[0] == "name":
                key, kind = t[1], "name"
            elif t[0] == "str":
                key, kind = ["strv", t[2]], "str"
            else:
                raise Reject("expected a context key at %d" % self.i)
            self.i += 1
            self.expect_p(":")
            out.append([key, kind, self.expression(0)])
            if self.isp(","):
                self.i += 1
                continue
            self.expect_p("}")
            return ["ctx", out]

    def type(self):
        t = self.peek()
        if t[0] == "type":
            self.i += 1
            return ["tb", t[1]]
        if t[0] == "name":
            names = [self.expect_name()]
            while self.isp(".") and self.peek(1)[0] == "name":
                self.i += 1
                names.append(self.expect_name())
            return ["tqn", names]
        if t[0] == "kw" and t[1] in ("list", "range"):
            self.i += 1
            self.expect_p("<")
            x = self.type()
            self.expect_p(">")
            return ["tlist" if t[1] == "list" else "trange", x]
        if t[0] == "kw" and t[1] == "context":
            self.i += 1
            self.expect_p("<")
            out = []
            while True:
                n = self.expect_name()
                self.expect_p(":")
                out.append([n, self.type()])
                if self.isp(","):
                    self.i += 1
                    continue
                self.expect_p(">")
                return ["tctx", out]
        if t[0] == "kw" and t[1] == "function":
            self.i += 1
            self.expect_p("<")
            ps = []
            if self.isp(">"):
                self.i += 1
            else:
                while True:
                    ps.append(self.type())
                    if self.isp(","):
                        self.i += 1
                        continue
                    self.expect_p(">")
                    break
            self.expect_p("->")
            return ["tfn", ps, self.type()]
        raise Reject("expected a type at %d" % self.i)


def ref_parse(tokens, entry="expression", labels=None):
    """Model tree the grammar dictates for the token list, or raises Reject."""
    return Ref(tokens, labels).parse(entry)


def ref_shape(tokens, entry="expression", labels=None):
    """shape of the reference tree, or None when the reference rejects."""
    try:
        return shape(ref_parse(tokens, entry, labels))
    except Reject:
        return None
    except RecursionError:
        return None


# ------------------------------------------------------------------------------------------------
# parenthesis decisions
# ------------------------------------------------------------------------------------------------

def full_parens(tree, entry="expression"):
    return set(compound_paths(tree, entry))


def minimal_parens(tree, entry="expression"):
    """A locally minimal set of parenthesis pairs: the rendering denotes `tree` according to the reference parser and
    dropping any single remaining pair does not. Returns (set, ok); ok False when even the full rendering is not read
    back as `tree` by the reference (a fault of this module, never of the code under test)."""
    want = shape(tree)
    keep = full_parens(tree, entry)
    if ref_shape(render(tree, frozenset(keep)), entry) != want:
        return keep, False
    changed = True
    while changed:
        changed = False
        for p in sorted(keep, key=lambda s: (-len(s), s)):
            trial = keep - {p}
            if ref_shape(render(tree, frozenset(trial)), entry) == want:
                keep = trial
                changed = True
    return keep, True


# ------------------------------------------------------------------------------------------------
# diagnosis helpers for already known lexer defects (trigger sets over token lists)
# ------------------------------------------------------------------------------------------------

def type_flag_trigger(tokens):
    """Index of a date/time literal name that the lexer will take for a built-in type name because the `type name
    expected` flag raised at an earlier type position was never lowered (it is lowered only by a built-in type name)."""
    flag = False
    for i, t in enumerate(tokens):
        if t[3] == "tstart":
            flag = True
        if t[0] == "type":
            flag = False
        elif t[0] == "dt" and t[1] in BUILTIN_TYPES and flag:
            return i
    return None


def operand_start(tokens, k):
    """Does an operand (not a postfix invocation / filter) start at token k?"""
    if k == 0:
        return True
    p = tokens[k - 1]
    if p[0] == "kw":
        return True
    if p[0] == "p" and p[1] == ")":
        # `)` that closes the formal parameters of `function (`
        d = 0
        for j in range(k - 1, -1, -1):
            t = tokens[j]
            if t[0] == "p" and t[1] == ")":
                d += 1
            elif t[0] == "p" and t[1] == "(":
                d -= 1
                if d == 0:
                    return j > 0 and tokens[j - 1][0] == "kw" and tokens[j - 1][1] == "function"
        return False
    return p[0] == "p" and p[1] not in ("]", "}")


def path3_after_open_trigger(tokens):
    """Index of a `(` or `[` in operand position directly followed by name . name . name that is not the start of an
    interval: the LALR tables commit to `qualified_name` there (shift preferred on DOT) and then need `..`."""
    n = len(tokens)
    for k, t in enumerate(tokens):
        if t[0] == "p" and t[1] in ("(", "[") and operand_start(tokens, k) and k + 5 < n:
            seq = tokens[k + 1:k + 6]
            if (seq[0][0] == "name" and seq[1][1] == "." and seq[1][0] == "p" and seq[2][0] == "name" and seq[3][0] == "p"
                    and seq[3][1] == "." and seq[4][0] == "name"):
                j = k + 6
                while j + 1 < n and tokens[j][0] == "p" and tokens[j][1] == "." and tokens[j + 1][0] == "name":
                    j += 2
                if not (j < n and tokens[j][0] == "p" and tokens[j][1] == ".."):
                    return k
    return None


# ------------------------------------------------------------------------------------------------
# generators (all randomness through an engine Src)
# ------------------------------------------------------------------------------------------------

NAMES = ["a", "b", "c", "d", "e", "f", "g", "h", "k", "m", "n", "p", "q", "r", "s", "u", "v", "w", "x", "y", "z", "t",
         "x1", "_v", "Abc", "iffy", "inx", "orb", "andy", "forx", "nullx", "truex", "thenx", "elsex", "notx", "ofx", "returnx",
         "betweenx", "αβ", "naïve"]
SIMPLE_NAMES = NAMES[:22]


def scope_for(names=NAMES):
    """Parsing scope (driver encoding) binding every name to null."""
    return [[[n, None] for n in names]]


def gen_name(src):
    return src.choice(NAMES) if src.bool(0.15) else src.choice(SIMPLE_NAMES)


def gen_pname(src):
    """name of a named parameter / key of a context entry: now and then `date` or `time`, which are plain names in front of a colon and the
    beginning of a temporal literal anywhere else (they are not bound in the parsing scope)"""
    return src.choice(["date", "time"]) if src.bool(0.2) else gen_name(src)


def gen_num(src):
    style = src.weighted([(6, "int"), (3, "dec"), (1, "dot"), (1, "lead0"), (1, "long")])
    if style == "int":
        return ["num", str(src.int(0, 99)), "", "plain"]
    if style == "dec":
        return ["num", str(src.int(0, 99)), src.digits(src.int(1, 3)), "plain"]
    if style == "dot":
        return ["num", "0", src.digits(src.int(1, 3)), "dot"]
    if style == "lead0":
        return ["num", "0" * src.int(1, 3) + src.digits(src.int(1, 2)), src.digits(src.int(0, 2)), "plain"]
    return ["num", src.digits(src.int(20, 40)), src.digits(src.int(0, 40)), "plain"]


STR_CPS = [97, 98, 32, 48, 34, 92, 39, 10, 13, 9, 0xE9, 0x3A9, 0x20AC, 0x1F600, 0x1F640, 0x10000, 0x10FFFF, 0xFFFF, 0x7F, 1,
           ord("("), ord(")"), ord("/"), ord("*"), ord("+"), ord("-"), ord(","), ord("{"), ord("]"), 0x2028, 0xA0, 0xD7FF, 0xE000]


def gen_str(src, sp_bad=0.02):
    chars = []
    for _ in range(src.int(0, 4)):
        cp = src.choice(STR_CPS)
        forms = forms_for(cp)
        if cp > 0xFFFF and cp & 0x40 and not src.bool(sp_bad):
            forms = [f for f in forms if not f.startswith("sp")]
        chars.append([cp, src.choice(forms)])
    return ["str", chars]


def gen_keystr(src):
    n = gen_name(src)
    return ["str", [[ord(c), "raw"] for c in n]]


def gen_dt(src):
    f = src.weighted([(5, "duration"), (2, "date"), (1, "time"), (1, "date and time")])
    arg = {"date": "2020-01-31", "time": "10:20:30", "date and time": "2020-01-31T10:20:30", "duration": "P1DT2H"}[f]
    return ["dt", f, ["pos", [["str", [[ord(c), "raw"] for c in arg]]]]]


def gen_leaf(src):
    k = src.weighted([(10, "name"), (4, "num"), (2, "str"), (1, "bool"), (1, "null"), (1, "at"), (1, "dt")])
    if k == "name":
        return ["name", gen_name(src)]
    if k == "num":
        return gen_num(src)
    if k == "str":
        return gen_str(src)
    if k == "bool":
        return ["bool", src.bool(0.5)]
    if k == "null":
        return ["null"]
    if k == "at":
        return ["at", ["str", [[ord(c), "raw"] for c in src.choice(["2020-01-31", "P1D", "10:20:30"])]]]
    return gen_dt(src)


def gen_endpoint(src):
    k = src.weighted([(5, "qn1"), (2, "qn2"), (1, "qn3"), (4, "num"), (1, "str"), (1, "bool"), (1, "at"), (1, "dt")])
    if k.startswith("qn"):
        return ["qn", [gen_name(src) for _ in range(int(k[2]))]]
    if k == "num":
        return gen_num(src)
    if k == "str":
        return gen_str(src, 0.0)
    if k == "bool":
        return ["bool", src.bool(0.5)]
    if k == "at":
        return ["at", ["str", [[ord(c), "raw"] for c in "2020-01-31"]]]
    return gen_dt(src)


def gen_type(src, d=2, bare_builtin=True):
    k = src.weighted([(4, "tqn"), (3 if bare_builtin else 0, "tb"), (2 if d else 0, "tlist"), (1 if d else 0, "trange"),
                      (1 if d else 0, "tctx"), (1 if d else 0, "tfn"), (1, "tqn2")])
    if k == "tqn":
        return ["tqn", [gen_name(src)]]
    if k == "tqn2":
        return ["tqn", [gen_name(src), gen_name(src)]]
    if k == "tb":
        return ["tb", src.choice(list(BUILTIN_TYPES))]
    if k in ("tlist", "trange"):
        return [k, gen_type(src, d - 1)]
    if k == "tctx":
        return ["tctx", [[gen_name(src), gen_type(src, d - 1)] for _ in range(src.int(1, 2))]]
    return ["tfn", [gen_type(src, d - 1) for _ in range(src.int(0, 2))], gen_type(src, d - 1, bare_builtin)]


def replace_trailing_builtin(t):
    """Type whose right-most built-in name (the one a following word would be glued to) is replaced by a bound name."""
    if t[0] == "tb":
        return ["tqn", ["t"]]
    if t[0] == "tfn":
        return ["tfn", t[1], replace_trailing_builtin(t[2])]
    return t


OPS_W = [(5, "+"), (3, "-"), (3, "*"), (2, "/"), (3, "**"), (3, "or"), (4, "and"), (2, "="), (1, "!="), (1, "<"), (1, "<="),
         (1, ">"), (1, ">="), (3, "in"), (2, "inlist"), (4, "between"), (4, "neg"), (3, "instof"), (4, "path"), (4, "filter"),
         (3, "call"), (1, "notcall"), (1, "callnamed"), (4, "if"), (3, "for"), (2, "some"), (2, "every"), (3, "fn"), (3, "list"), (2, "ctx"),
         (2, "range"), (2, "ut")]


LOCAL_NAMES = ["lx", "ly", "lz", "lw", "lq", "l1"]     # never bound in the caller's scope: only the enclosing construct binds them


def gen_tree(src, d, env=None):
    """Random expression tree of depth <= d over the full operator set.
    env = None: every name comes from NAMES (bound by the caller). env = tuple of local names in scope: constructs that open a
    scope (for / some / every / function / context) often bind a name of LOCAL_NAMES, which the caller's scope does NOT bind, and
    sub-trees inside that scope often use it; a local name is never used outside the construct that binds it."""
    if env is not None and env and src.bool(0.35):
        return ["name", src.choice(list(env))]
    if d <= 1 or src.bool(0.12):
        return gen_leaf(src)
    k = src.weighted(OPS_W)
    g = lambda e=env: gen_tree(src, d - 1, e)
    bind = (lambda: src.choice(LOCAL_NAMES) if src.bool(0.6) else gen_name(src)) if env is not None else (lambda: gen_name(src))
    ext = (lambda e, n: (tuple(e) + (n,)) if n in LOCAL_NAMES else (tuple(x for x in e if x != n))) if env is not None else (lambda e, n: None)
    if k in BINOPS:
        return [k, g(), g()]
    if k == "inlist":
        return ["inlist", g(), [g() for _ in range(src.int(2, 3))]]
    if k == "between":
        return ["between", g(), g(), g()]
    if k == "neg":
        return ["neg", g()]
    if k == "instof":
        return ["instof", g(), gen_type(src)]
    if k == "path":
        return ["path", g(), gen_name(src)]
    if k == "filter":
        return ["filter", g(), g()]
    if k == "call":
        return ["call", g(), ["pos", [g() for _ in range(src.int(0, 2))]]]
    if k == "callnamed":
        return ["call", g(), ["named", [[gen_pname(src), g()] for _ in range(src.int(1, 2))]]]
    if k == "notcall":
        # the built-in function `not`: a name like any other, except at the very beginning of unary tests
        return ["call", ["name", "not"], ["pos", [g()]]]
    if k == "if":
        return ["if", g(), g(), g()]
    if k == "for":
        ctxs = []
        e = env
        for _ in range(src.int(1, 2)):
            n = bind()
            if src.bool(0.3):
                ctxs.append([n, "range", g(e), g(e)])
            else:
                ctxs.append([n, "single", g(e)])
            e = ext(e, n)
        return ["for", ctxs, g(e)]
    if k in ("some", "every"):
        qs = []
        e = env
        for _ in range(src.int(1, 2)):
            n = bind()
            qs.append([n, g(e)])
            e = ext(e, n)
        return [k, qs, g(e)]
    if k == "fn":
        ps = [[bind(), gen_type(src, 1) if src.bool(0.3) else None] for _ in range(src.int(0, 2))]
        e = env
        for p in ps:
            e = ext(e, p[0])
        external = src.bool(0.15)
        return ["fn", ps, g(env if external else e), external]
    if k == "list":
        return ["list", [g() for _ in range(src.int(0, 3))]]
    if k == "ctx":
        entries = []
        e = env
        count = src.int(0, 2) if env is None else src.int(0, 3)
        for i in range(count):
            if src.bool(0.3):
                entries.append([gen_keystr(src), "str", g(e)])
            else:
                # `date` / `time` only as the LAST key: once an entry has that name, `date(...)` / `date and time(...)` in a later entry
                # begin with a bound name
                n = bind() if not (i == count - 1 and src.bool(0.25)) else src.choice(["date", "time"])
                entries.append([n, "name", g(e)])      # a key is used by LATER entries only
                e = ext(e, n)
        return ["ctx", entries]
    if k == "range":
        return ["range", src.choice(["[", "(", "]"]), gen_endpoint(src), gen_endpoint(src), src.choice(["]", ")", "["])]
    if k == "ut":
        return ["ut", src.choice(["<", "<=", ">", ">="]), gen_endpoint(src)]
    raise ValueError(k)


def fix_types(tree):
    """Copy of tree in which every instance-of type / typed parameter ends in something a following word cannot be glued to."""
    k = tree[0]
    new = [fix_types(c) for c in slots(tree)]
    t = with_slots(tree, new)
    if k == "instof":
        t = ["instof", t[1], replace_trailing_builtin(t[2])]
    return t
