"""The model alphabet for the workspace properties (C17, reused by C18): small DMN texts whose namespaces and names
collide pairwise in every way the workspace can be confused by.

    A   (ns1, a)  decision Who = "A"
    B   (ns1, a - b)  decision Who = "B" same namespace as A, different name
    C   (ns2, a)  decision Who = "C"     same name as A, different namespace
    A2  (ns1, a)  decision Who = "A2"    identical key to A (DESIGN's A'); different content so a replacement is observable
    D   (ns3, c)  knowledge model Who() = "D"   disjoint from all; its only invocable is a business knowledge model (no decision)
    E   (ns4, d)  decision Who = 1 +     parses (dmntk_model::parse accepts it) but ModelEvaluator::new fails: FEEL syntax error
    F   (ns3/, a-b) decision Who = "F"   its namespace differs from D's only by a trailing slash, its name from B's only by the blanks
                                         around the hyphen (the same FEEL name, another string): keys are compared as given, so it is
                                         a different namespace and a different name (a workspace that normalises keys in one place
                                         only drifts here)

    G   (a, ns2)  decision Who = "G"     its namespace is spelled like the NAME of A and C, its name like the NAMESPACE of C: namespaces
                                         and names are two key spaces, so G collides with nothing (a workspace that looks a key up in
                                         both lookups refuses it next to A or C)

Every model has one decision `Who` without requirements whose value names the model text, so that evaluating
(model name, "Who") tells which definitions are deployed under that name.
"""

INVOCABLE = "Who"


def model_xml(namespace, name, feel_text, decision=INVOCABLE):
    return ('<?xml version="1.0" encoding="UTF-8"?>\n'
            '<definitions namespace="%s" name="%s" id="_model" xmlns="https://www.omg.org/spec/DMN/20191111/MODEL/">\n'
            '  <decision name="%s" id="_decision">\n'
            '    <variable typeRef="string" name="%s"/>\n'
            '    <literalExpression>\n'
            '      <text>%s</text>\n'
            '    </literalExpression>\n'
            '  </decision>\n'
            '</definitions>\n') % (namespace, name, decision, decision, feel_text)


def bkm_model_xml(namespace, name, feel_text, invocable=INVOCABLE):
    """a model without any decision: its only invocable is a parameterless business knowledge model"""
    return ('<?xml version="1.0" encoding="UTF-8"?>\n'
            '<definitions namespace="%s" name="%s" id="_model" xmlns="https://www.omg.org/spec/DMN/20191111/MODEL/">\n'
            '  <businessKnowledgeModel name="%s" id="_bkm">\n'
            '    <variable typeRef="string" name="%s"/>\n'
            '    <encapsulatedLogic><literalExpression><text>%s</text></literalExpression></encapsulatedLogic>\n'
            '  </businessKnowledgeModel>\n'
            '</definitions>\n') % (namespace, name, invocable, invocable, feel_text)


# tag -> (namespace, name, builds, value of Who when deployed)
MODELS = {
    "A": ("ns1", "a", True, "A"),
    "B": ("ns1", "a - b", True, "B"),
    "C": ("ns2", "a", True, "C"),
    "A2": ("ns1", "a", True, "A2"),
    "D": ("ns3", "c", True, "D"),
    "E": ("ns4", "d", False, None),
    "F": ("ns3/", "a-b", True, "F"),
    "G": ("a", "ns2", True, "G"),
}
TAGS = ["A", "B", "C", "A2", "D", "E", "F", "G"]          # simplest first
XML = {tag: (bkm_model_xml if tag == "D" else model_xml)(ns, name, '"%s"' % val if builds else "1 +") for tag, (ns, name, builds, val) in MODELS.items()}

NAMESPACES = ["ns1", "ns2", "ns3", "ns4", "ns3/"]
NAMES = ["a", "a - b", "c", "d", "a-b"]
# remove() arguments: the five model keys first, then the cross pairs, then a pair nobody has
MODEL_KEYS = [("ns1", "a"), ("ns1", "a - b"), ("ns2", "a"), ("ns3", "c"), ("ns4", "d"), ("ns3/", "a-b"), ("a", "ns2")]
CROSS_KEYS = [(ns, nm) for ns in NAMESPACES for nm in NAMES if (ns, nm) not in MODEL_KEYS]
# keys that differ from a stored model's only in letter case: other keys (namespaces and names are compared as given)
CASE_KEYS = [("NS1", "a"), ("ns1", "A"), ("NS3/", "a-b")]
# keys that differ from a stored model's only by white space at an end: other keys as well (nothing is trimmed)
PADDED_KEYS = [(" ns1", "a"), ("ns2", "a "), ("ns1\n", "a - b")]
REMOVE_KEYS = MODEL_KEYS + CROSS_KEYS + CASE_KEYS + PADDED_KEYS + [("nsX", "x")]
EVAL_NAMES = NAMES + ["ns2", "x", "a -b"]      # "a -b": a third spelling of the same FEEL name, which no model has


def key_of(tag):
    return MODELS[tag][0], MODELS[tag][1]
