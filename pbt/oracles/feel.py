"""Reference evaluator for the FEEL core fragment (written from DMN 1.3 section 10.3.2; imports nothing from the SUT).

AST (JSON-serialisable nested lists):
  ["num", text] ["str", s] ["bool", b] ["null"] ["name", n]
  ["neg", e] ["arith", op, a, b]  op in + - * / **        ["cmp", op, a, b]  op in = != < <= > >=
  ["and", a, b] ["or", a, b] ["if", c, t, e] ["between", x, a, b]
  ["in", x, [test...]]   test = ["t_e", e] | ["t_cmp", op, e] | ["t_rng", lc, a, b, hc]
  ["list", [e...]] ["ctx", [[key, e]...]] ["path", e, name] ["filter", e, p]
  ["for", [[var, ["dl", e]] | [var, ["dr", a, b]] ...], body]
  ["some", [[var, e]...], body] ["every", [[var, e]...], body]
  ["fn", [[param, type|None]...], body] ["call", f, [arg...]] ["calln", f, [[name, arg]...]]

Values: None, bool, Decimal, str, list, dict, Closure. `dev` = set of deviation flags used only to *diagnose*
known findings (the deviated reference predicts what a documented defect produces)."""
import decimal
from decimal import Decimal

from ..dec import ctx128

KEYWORDS = {"and", "or", "not", "if", "then", "else", "for", "in", "return", "some", "every", "satisfies", "between",
            "instance", "of", "function", "external", "true", "false", "null", "item", "partial", "date", "time",
            "duration", "years", "months", "days", "number", "string", "boolean", "list", "context", "range", "Any", "Null"}


class Unspecified(Exception):
    """The statement/DMN text does not decide this case: only totality/purity may be asserted."""


class Closure:
    def __init__(self, params, body, env):
        self.params, self.body, self.env = params, body, env

    def __repr__(self):
        return "<function>"


class Builtin:
    def __init__(self, name):
        self.name = name

    def __repr__(self):
        return "<builtin %s>" % self.name


BUILTINS = {"count", "sum", "string length"}


def is_num(v):
    return isinstance(v, Decimal)


def kind(v):
    if v is None:
        return "null"
    if isinstance(v, bool):
        return "bool"
    if isinstance(v, Decimal):
        return "num"
    if isinstance(v, str):
        return "str"
    if isinstance(v, list):
        return "list"
    if isinstance(v, dict):
        return "ctx"
    if isinstance(v, (Closure, Builtin)):
        return "fn"
    return "other"


def arith(op, a, b):
    if isinstance(a, str) and isinstance(b, str) and op == "+":
        return a + b
    if not (is_num(a) and is_num(b)):
        return None
    c = ctx128()
    if op == "+":
        r = c.add(a, b)
    elif op == "-":
        r = c.subtract(a, b)
    elif op == "*":
        r = c.multiply(a, b)
    elif op == "/":
        if b == 0:
            return None
        r = c.divide(a, b)
    elif op == "**":
        r = c.power(a, b)
    else:
        raise ValueError(op)
    if c.flags[decimal.Overflow] or c.flags[decimal.InvalidOperation] or c.flags[decimal.DivisionByZero]:
        return None
    if not r.is_finite():
        return None
    return r


NULL_LEFT_EQ = [False]   # deviation switch (diagnosis only): `null = x` is null while `x = null` is false


def equal(a, b):
    """FEEL equality: True/False/None."""
    if a is None and b is None:
        return True
    if a is None and NULL_LEFT_EQ[0]:
        NULL_LEFT_EQ.append(1)   # fired
        return None
    if a is None or b is None:
        return False
    ka, kb = kind(a), kind(b)
    if ka != kb:
        return None
    if ka == "list":
        if len(a) != len(b):
            return False
        res = True
        for x, y in zip(a, b):
            e = equal(x, y)
            if e is False:
                return False
            if e is None:
                res = None
        if res is None:
            raise Unspecified("equality of lists whose items are of different kinds")
        return res
    if ka == "ctx":
        if set(a) != set(b):
            return False
        res = True
        for k in a:
            e = equal(a[k], b[k])
            if e is False:
                return False
            if e is None:
                res = None
        if res is None:
            raise Unspecified("equality of contexts whose entries are of different kinds")
        return res
    if ka == "fn":
        raise Unspecified("function equality")
    return a == b


def less(a, b):
    """a < b for one ordered kind; None otherwise."""
    if is_num(a) and is_num(b):
        return a < b
    if isinstance(a, str) and isinstance(b, str):
        return a < b   # code point order
    return None


def compare(op, a, b):
    if op == "=":
        return equal(a, b)
    if op == "!=":
        e = equal(a, b)
        return None if e is None else (not e)
    if op == "<":
        return less(a, b)
    if op == ">":
        return less(b, a)
    if op == "<=":
        l, e = less(a, b), None
        if l is None:
            return None
        return l or a == b
    if op == ">=":
        l = less(b, a)
        if l is None:
            return None
        return l or a == b
    raise ValueError(op)


def tv(v):
    """three-valued view of an operand of and/or"""
    return v if isinstance(v, bool) else None


def and3(a, b):
    a, b = tv(a), tv(b)
    if a is False or b is False:
        return False
    if a is True and b is True:
        return True
    return None


def or3(a, b):
    a, b = tv(a), tv(b)
    if a is True or b is True:
        return True
    if a is False and b is False:
        return False
    return None


class Env:
    """Lexical environment: chain of frames."""

    def __init__(self, frames=None):
        self.frames = frames or []

    def push(self, d):
        return Env(self.frames + [d])

    def get(self, name):
        for f in reversed(self.frames):
            if name in f:
                return True, f[name]
        return False, None


class Ref:
    def __init__(self, dev=()):
        self.dev = set(dev)
        self.steps = 0
        self.fired = set()       # deviation flags that actually changed the course of this evaluation

    def ev(self, n, env):
        self.steps += 1
        t = n[0]
        m = getattr(self, "e_" + t)
        return m(n, env)

    # leaves
    def e_num(self, n, env):
        return Decimal(n[1])

    def e_str(self, n, env):
        return n[1]

    def e_bool(self, n, env):
        return n[1]

    def e_null(self, n, env):
        return None

    def e_name(self, n, env):
        ok, v = env.get(n[1])
        if ok:
            return v
        if n[1] in BUILTINS:
            return Builtin(n[1])
        return None

    def e_neg(self, n, env):
        v = self.ev(n[1], env)
        return ctx128().minus(v) if is_num(v) else None

    def e_arith(self, n, env):
        return arith(n[1], self.ev(n[2], env), self.ev(n[3], env))

    def e_cmp(self, n, env):
        return compare(n[1], self.ev(n[2], env), self.ev(n[3], env))

    def e_and(self, n, env):
        return and3(self.ev(n[1], env), self.ev(n[2], env))

    def e_or(self, n, env):
        return or3(self.ev(n[1], env), self.ev(n[2], env))

    def e_if(self, n, env):
        c = self.ev(n[1], env)
        if c is True:
            return self.ev(n[2], env)
        if c is False or c is None:
            return self.ev(n[3], env)
        raise Unspecified("if condition neither boolean nor null")

    def e_between(self, n, env):
        x, a, b = self.ev(n[1], env), self.ev(n[2], env), self.ev(n[3], env)
        lo, hi = compare(">=", x, a), compare("<=", x, b)
        if (lo is None) != (hi is None):
            raise Unspecified("between with one comparable and one incomparable bound")
        return and3(lo, hi)

    def in_test(self, x, t, env):
        if t[0] == "t_cmp":
            return compare(t[1], x, self.ev(t[2], env))
        if t[0] == "t_rng":
            a, b = self.ev(t[2], env), self.ev(t[3], env)
            lo = compare(">=" if t[1] else ">", x, a)
            hi = compare("<=" if t[4] else "<", x, b)
            if (lo is None) != (hi is None):
                raise Unspecified("range with one incomparable end")
            return and3(lo, hi)
        v = self.ev(t[1], env)
        if isinstance(v, list):
            if any(y is None for y in v):
                raise Unspecified("in a list containing null")
            res = False
            for y in v:
                e = equal(x, y)
                if e is True:
                    return True
                if e is None:
                    res = None
            return res
        if x is None or v is None:
            raise Unspecified("null in / in null")
        return equal(x, v)

    def e_in(self, n, env):
        x = self.ev(n[1], env)
        if x is None:
            raise Unspecified("null on the left of in")
        if isinstance(x, (list, dict)):
            # unary tests are defined for the scalar input values of decision tables; what `[1,2] in ([[1,2]], 5)` means is not settled
            raise Unspecified("list or context on the left of in")
        res = False
        for t in n[2]:
            r = self.in_test(x, t, env)
            if r is True:
                return True
            if r is None:
                raise Unspecified("in-test over values of different kinds or null")
        return res

    def e_list(self, n, env):
        return [self.ev(e, env) for e in n[1]]

    def e_ctx(self, n, env):
        out = {}
        for k, e in n[1]:
            if k in out:
                raise Unspecified("duplicate context key")
            out[k] = self.ev(e, env.push(out))
        return dict(out)

    def path_of(self, v, name):  # noqa
        if isinstance(v, dict):
            return v.get(name)
        if isinstance(v, list):
            if any(not isinstance(x, dict) for x in v):
                if self.fired:
                    return None
                raise Unspecified("path over a list with items that are not contexts")
            return [x.get(name) for x in v]
        return None

    def e_path(self, n, env):
        return self.path_of(self.ev(n[1], env), n[2])

    def e_filter(self, n, env):
        subj = self.ev(n[1], env)
        if subj is None:
            if self.fired:
                return None
            raise Unspecified("filter on null")
        items = subj if isinstance(subj, list) else [subj]
        pred = n[2]
        if filter_is_index(pred):
            i = self.ev(pred, env)
            if i is None:
                return []   # the filter expression is not a number: nothing is selected because null is not true
            if not is_num(i):
                raise Unspecified("non-numeric constant filter")
            if i != i.to_integral_value():
                raise Unspecified("fractional index")
            i = int(i)
            if 1 <= i <= len(items):
                return items[i - 1]
            if -len(items) <= i <= -1:
                return items[len(items) + i]
            return None
        # DMN decides "index or test" by the type of the filter expression without saying in which scope a name that is
        # both an outer name and `item`/an entry name is looked up: when the expression is a number outside the item
        # binding, both readings apply
        outer = self.ev(pred, env)   # Unspecified here leaves "index or test" undecided as well
        if is_num(outer):
            raise Unspecified("filter expression is a number when evaluated outside the item binding")
        out = []
        for x in items:
            frame = dict(x) if isinstance(x, dict) else {}
            if "item" not in frame:
                frame["item"] = x      # `item` is the element, unless the element is a context that has an entry named item
            r = self.ev(pred, env.push(frame))
            if r is True:
                out.append(x)
            elif r is not False and r is not None:
                raise Unspecified("filter predicate neither boolean nor null")
        if "eager_unwrap" in self.dev and len(out) == 1 and isinstance(subj, list):
            self.fired.add("eager_unwrap")
            return out[0]
        return out

    def domains(self, ctxs, env):
        doms = []
        for var, d in ctxs:
            if d[0] == "dr":
                a, b = self.ev(d[1], env), self.ev(d[2], env)
                if not (is_num(a) and is_num(b)) or a != a.to_integral_value() or b != b.to_integral_value():
                    raise Unspecified("range end not an integer")
                a, b = int(a), int(b)
                vals = [Decimal(i) for i in (range(a, b + 1) if a <= b else range(a, b - 1, -1))]
            else:
                v = self.ev(d[1], env)
                if not isinstance(v, list):
                    raise Unspecified("iteration over a non-list")
                vals = v
            doms.append((var, vals))
        if "empty_domain_ignored" in self.dev and any(vals for _, vals in doms) and not all(vals for _, vals in doms):
            # documented defect: an empty domain next to non-empty ones is skipped and its variable stays unbound
            self.fired.add("empty_domain_ignored")
            doms = [(var, vals) for var, vals in doms if vals]
        return doms

    def product(self, doms):
        if not doms:
            yield {}
            return
        var, vals = doms[0]
        for v in vals:
            for rest in self.product(doms[1:]):
                d = {var: v}
                d.update(rest)
                yield d

    def e_for(self, n, env):
        doms = self.domains(n[1], env)
        if doms is None:
            return None
        out = []
        for binding in self.product(doms):
            frame = dict(binding)
            frame["partial"] = list(out)
            out.append(self.ev(n[2], env.push(frame)))
        return out

    def quant(self, n, env, some):
        doms = self.domains([[v, ["dl", e]] for v, e in n[1]], env)
        if doms is None:
            return None
        saw_null = False
        for binding in self.product(doms):
            r = self.ev(n[2], env.push(binding))
            if r is True:
                if some:
                    return True
            elif r is False:
                if not some:
                    return False
            else:
                saw_null = True
        if saw_null:
            return None
        return not some

    def e_some(self, n, env):
        return self.quant(n, env, True)

    def e_every(self, n, env):
        return self.quant(n, env, False)

    def e_fn(self, n, env):
        return Closure(n[1], n[2], env)

    def apply(self, f, args, env):
        if isinstance(f, Builtin):
            try:
                return builtin(f.name, args)
            except Unspecified:
                if self.fired:
                    return None   # behind a modelled deviation a misuse of the glue built-ins shows up as null
                raise
        if not isinstance(f, Closure):
            return None
        if len(args) < len(f.params):
            return None      # an invocation that leaves a parameter without a value is an error: null is the error value
        if len(args) > len(f.params):
            raise Unspecified("more arguments than parameters")
        frame = {}
        for (p, ty), a in zip(f.params, args):
            if ty is not None:
                a = coerce_param(ty, a)
            frame[p] = a
        if "dynamic_scope" in self.dev:
            self.fired.add("dynamic_scope")   # conservatively: any closure application
        base = env if "dynamic_scope" in self.dev else f.env
        return self.ev(f.body, base.push(frame))

    def e_call(self, n, env):
        f = self.ev(n[1], env)
        args = [self.ev(a, env) for a in n[2]]
        return self.apply(f, args, env)

    def e_calln(self, n, env):
        f = self.ev(n[1], env)
        given = {}
        for name, a in n[2]:
            given[name] = self.ev(a, env)
        if isinstance(f, Builtin):
            raise Unspecified("named call of builtin in core fragment")
        if not isinstance(f, Closure):
            return None
        names = [p for p, _ in f.params]
        if set(given) != set(names):
            raise Unspecified("named arguments do not match the parameters")
        return self.apply(f, [given[p] for p in names], env)


def coerce_param(ty, v):
    """Typed parameter: conforming value unchanged; everything else is outside the fragment."""
    ok = {"number": is_num(v), "string": isinstance(v, str), "boolean": isinstance(v, bool)}.get(ty)
    if ok is None:
        raise Unspecified("parameter type %s" % ty)
    if v is None or ok:
        return v
    # an argument that does not conform is converted: a list of one conforming item to that item, anything else to null (DMN 10.3.2.9.4
    # implicit conversions; the same rule for positional and named arguments)
    if isinstance(v, list) and len(v) == 1:
        one = v[0]
        if {"number": is_num(one), "string": isinstance(one, str), "boolean": isinstance(one, bool)}[ty]:
            return one
    return None


def builtin(name, args):
    if name == "count":
        if len(args) != 1:
            raise Unspecified("arity")
        if not isinstance(args[0], list):
            raise Unspecified("count of non-list")
        return Decimal(len(args[0]))
    if name == "sum":
        if args and all(is_num(a) for a in args):
            args = [list(args)]      # sum(n1, ..., nN)
        if len(args) != 1 or not isinstance(args[0], list):
            raise Unspecified("sum of non-list")
        if not args[0]:
            raise Unspecified("sum of empty list")
        acc = Decimal(0)
        for x in args[0]:
            if not is_num(x):
                return None
            acc = arith("+", acc, x)
            if acc is None:
                return None
        return acc
    if name == "string length":
        if len(args) != 1:
            raise Unspecified("arity")
        if not isinstance(args[0], str):
            return None
        return Decimal(len(args[0]))
    raise Unspecified("builtin " + name)


def filter_is_index(pred):
    """The generator marks index filters by construction: a predicate is an index when it mentions neither `item` nor is boolean-typed.
    Here: syntactic test — numeric literal, negated numeric literal, or arithmetic over such / names tagged by the generator."""
    return pred[0] == "idx"


# "idx" wrapper: ["idx", e] evaluates e; it only tells the reference that the generator built a numeric index filter.
def _e_idx(self, n, env):
    return self.ev(n[1], env)


Ref.e_idx = _e_idx


def evaluate(node, bindings, dev=()):
    """bindings: dict name -> value. Returns the value or raises Unspecified."""
    return evaluate2(node, bindings, dev)[0]


def evaluate2(node, bindings, dev=()):
    """-> (value, fired deviation flags); on Unspecified the exception carries .fired"""
    del NULL_LEFT_EQ[1:]
    NULL_LEFT_EQ[0] = "null_left_eq" in dev
    ref = Ref(dev)
    try:
        try:
            v = ref.ev(node, Env([dict(bindings)]))
        except Unspecified as e:
            e.fired = set(ref.fired) | ({"null_left_eq"} if len(NULL_LEFT_EQ) > 1 else set())
            raise
        return v, set(ref.fired) | ({"null_left_eq"} if len(NULL_LEFT_EQ) > 1 else set())
    finally:
        NULL_LEFT_EQ[0] = False
        del NULL_LEFT_EQ[1:]


# ------------------------------------------------------------------------------------------------
# rendering (full parenthesisation: precedence is C06's subject)
# ------------------------------------------------------------------------------------------------

ATOMS = {"num", "str", "bool", "null", "name", "list", "ctx"}


def esc(s):
    out = []
    for ch in s:
        if ch == '"':
            out.append('\\"')
        elif ch == "\\":
            out.append("\\\\")
        elif ch == "\n":
            out.append("\\n")
        elif ch == "\t":
            out.append("\\t")
        else:
            out.append(ch)
    return '"' + "".join(out) + '"'


def key_text(k):
    import re
    if _CHAIN[0] and not _CHAIN_STRKEY_OFF[0]:
        return esc(k)       # the second text writes every context key as a string literal: the same entry name, known to later entries alike
    return k if re.match(r"^[A-Za-z_][A-Za-z0-9_]*( [A-Za-z_][A-Za-z0-9_]*)*$", k) and k not in KEYWORDS else esc(k)


_CHAIN = [False]
_CHAIN_STRKEY_OFF = [False]
POSTFIX = ("path", "filter", "call", "calln")


def p(n, tail=False, head=False):
    """operand rendering: atoms bare, everything else parenthesised. In chain mode (r_chain) also bare: the head of a path / filter /
    invocation that is itself a postfix chain or a literal list / context, operands of arithmetic and comparison that are postfix chains,
    and the last sub-expression of for / some / every / function / if when it is an arithmetic expression, a comparison or a chain."""
    if n[0] in ATOMS:
        return r(n)
    if _CHAIN[0]:
        if head and n[0] in POSTFIX + ("list", "ctx"):
            return r(n)
        if not head and not tail and n[0] in POSTFIX:
            return r(n)
        if tail and n[0] in POSTFIX + ("arith", "cmp"):
            return r(n)
    return "(" + r(n) + ")"


def pp(n):
    """operand rendering that never depends on the mode (end points of a range: `a.k..b` would put a path next to the dots)"""
    return r(n) if n[0] in ATOMS else "(" + r(n) + ")"


_PATH3_AFTER_OPEN = None


def r_chain(n):
    """rendering with fewer parentheses (see p); None when the text would contain the trigger of the known parser finding
    C06/path-after-open-bracket (a path of three or more names directly after an opening bracket)"""
    global _PATH3_AFTER_OPEN
    import re
    if _PATH3_AFTER_OPEN is None:
        w = r"[A-Za-z_][A-Za-z_0-9]*"
        _PATH3_AFTER_OPEN = re.compile(r"[\(\[]\s*%s\s*\.\s*%s\s*\.\s*%s" % (w, w, w))
    _CHAIN[0] = True
    try:
        t = r(n)
    finally:
        _CHAIN[0] = False
    if _PATH3_AFTER_OPEN.search(t):
        return None
    # a path to the entry `zz` (the generator's name for an entry that does not exist, bound nowhere): a word after it would be read as a
    # further word of that unknown name; the text keeps it in front of a closing bracket or a comma
    if re.search(r"\.zz(?!\s*[\)\],}]|\s*$)", t):
        return None
    return t


def r(n):
    t = n[0]
    if t == "num":
        return n[1]
    if t == "str":
        return esc(n[1])
    if t == "bool":
        return "true" if n[1] else "false"
    if t == "null":
        return "null"
    if t == "name":
        return n[1]
    if t == "idx":
        return r(n[1])
    if t == "neg":
        return "-" + p(n[1])
    if t == "arith":
        return "%s %s %s" % (p(n[2]), n[1], p(n[3]))
    if t == "cmp":
        return "%s %s %s" % (p(n[2]), n[1], p(n[3]))
    if t in ("and", "or"):
        return "%s %s %s" % (p(n[1]), t, p(n[2]))
    if t == "if":
        return "if %s then %s else %s" % (p(n[1]), p(n[2]), p(n[3], tail=True))
    if t == "between":
        return "%s between %s and %s" % (p(n[1]), p(n[2]), p(n[3]))
    if t == "in":
        tests = [rtest(x) for x in n[2]]
        if len(tests) == 1 and n[2][0][0] != "t_e":
            return "%s in %s" % (p(n[1]), tests[0])
        return "%s in (%s)" % (p(n[1]), ", ".join(tests))
    if t == "list":
        return "[" + ", ".join(r(e) for e in n[1]) + "]"
    if t == "ctx":
        return "{" + ", ".join("%s: %s" % (key_text(k), r(e)) for k, e in n[1]) + "}"
    if t == "path":
        return "%s.%s" % (p(n[1], head=True), n[2])
    if t == "filter":
        return "%s[%s]" % (p(n[1], head=True), r(n[2]))
    if t == "for":
        parts = []
        for var, d in n[1]:
            if d[0] == "dr":
                parts.append("%s in %s..%s" % (var, pp(d[1]), pp(d[2])))
            else:
                parts.append("%s in %s" % (var, p(d[1])))
        return "for %s return %s" % (", ".join(parts), p(n[2], tail=True))
    if t in ("some", "every"):
        return "%s %s satisfies %s" % (t, ", ".join("%s in %s" % (v, p(e)) for v, e in n[1]), p(n[2], tail=True))
    if t == "fn":
        ps = ", ".join(v if ty is None else "%s: %s" % (v, ty) for v, ty in n[1])
        return "function(%s) %s" % (ps, p(n[2], tail=True))
    if t == "call":
        return "%s(%s)" % (p(n[1], head=True), ", ".join(r(a) for a in n[2]))
    if t == "calln":
        return "%s(%s)" % (p(n[1], head=True), ", ".join("%s: %s" % (k, r(a)) for k, a in n[2]))
    raise ValueError(t)


def rtest(t):
    if t[0] == "t_e":
        return p(t[1])
    if t[0] == "t_cmp":
        return "%s %s" % (t[1], r(t[2]))
    return "%s%s..%s%s" % ("[" if t[1] else "(", r(t[2]), r(t[3]), "]" if t[4] else ")")


def constructs(n, acc=None):
    """set of construct tags occurring in the tree"""
    if acc is None:
        acc = set()
    if isinstance(n, list) and n and isinstance(n[0], str):
        acc.add(n[0])
        for x in n[1:]:
            constructs_any(x, acc)
    return acc


def constructs_any(x, acc):
    if isinstance(x, list):
        if x and isinstance(x[0], str) and ("e_" + x[0] in dir(Ref) or x[0] in ("t_e", "t_cmp", "t_rng", "dl", "dr")):
            if "e_" + x[0] in dir(Ref):
                acc.add(x[0])
            for y in x[1:]:
                constructs_any(y, acc)
        else:
            for y in x:
                constructs_any(y, acc)
