"""Reference model of FEEL type equivalence, conformance and coercion (property C16), written from the property
statement and DMN 1.3 section 10.3.2.9 (lattice, equivalence, conformance, implicit conversions). Imports nothing from
the SUT.

Types (hashable, canonical):
    "number" ...                                simple type (one of SIMPLE)
    ("list", T) | ("range", T)
    ("context", ((name, T), ...))               entries sorted by name
    ("function", (P1, ..., Pn), R)

`dev` is a frozenset of *deviation flags*: models of known defects, used only to diagnose a disagreement (never to
accept one):
    "nullary"   two function types without parameters are compared without looking at their result types
    "nounwrap"  the from-singleton-list conversion is not attempted when the target is a list type
"""

SIMPLE = ["Any", "Null", "boolean", "number", "string", "date", "time", "date and time", "days and time duration",
          "years and months duration"]
NAMES = ["a", "b"]
NODEV = frozenset()


def t_list(t):
    return ("list", t)


def t_range(t):
    return ("range", t)


def t_ctx(entries):
    return ("context", tuple(sorted(entries)))


def t_fn(params, result):
    return ("function", tuple(params), result)


def kind(t):
    return "simple" if isinstance(t, str) else t[0]


def depth(t):
    if isinstance(t, str):
        return 0
    k = t[0]
    if k in ("list", "range"):
        return 1 + depth(t[1])
    if k == "context":
        return 1 + max([depth(x) for _, x in t[1]] or [0])
    return 1 + max([depth(x) for x in t[1]] + [depth(t[2])])


def from_case(j):
    """JSON-serialised form (lists instead of tuples) -> canonical type."""
    if isinstance(j, str):
        return j
    k = j[0]
    if k in ("list", "range"):
        return (k, from_case(j[1]))
    if k == "context":
        return t_ctx([(n, from_case(x)) for n, x in j[1]])
    return t_fn([from_case(x) for x in j[1]], from_case(j[2]))


def to_driver(t):
    """The driver's compact type json."""
    if isinstance(t, str):
        return t
    k = t[0]
    if k in ("list", "range"):
        return {k: to_driver(t[1])}
    if k == "context":
        return {"context": [[n, to_driver(x)] for n, x in t[1]]}
    return {"function": [[to_driver(x) for x in t[1]], to_driver(t[2])]}


def show(t):
    """The text the SUT prints for a type (FeelType's Display); used to cross-check transport, not semantics."""
    if isinstance(t, str):
        return t
    k = t[0]
    if k in ("list", "range"):
        return "%s<%s>" % (k, show(t[1]))
    if k == "context":
        return "context<%s>" % ", ".join("%s: %s" % (n, show(x)) for n, x in t[1])
    return "function<%s>->%s" % (", ".join(show(x) for x in t[1]), show(t[2]))


class TypeTextError(Exception):
    pass


def parse_shown(s):
    """Inverse of show() for entry names without ',', ':', '<', '>'."""
    t, i = _p_type(s, 0)
    if i != len(s):
        raise TypeTextError("trailing text in %r at %d" % (s, i))
    return t


def _p_type(s, i):
    for k in ("list", "range"):
        if s.startswith(k + "<", i):
            t, i = _p_type(s, i + len(k) + 1)
            if not s.startswith(">", i):
                raise TypeTextError("expected > in %r at %d" % (s, i))
            return (k, t), i + 1
    if s.startswith("context<", i):
        i += 8
        entries = []
        while not s.startswith(">", i):
            j = s.find(": ", i)
            if j < 0:
                raise TypeTextError("expected entry in %r at %d" % (s, i))
            name = s[i:j]
            t, i = _p_type(s, j + 2)
            entries.append((name, t))
            if s.startswith(", ", i):
                i += 2
        return t_ctx(entries), i + 1
    if s.startswith("function<", i):
        i += 9
        params = []
        while not s.startswith(">", i):
            t, i = _p_type(s, i)
            params.append(t)
            if s.startswith(", ", i):
                i += 2
        if not s.startswith(">->", i):
            raise TypeTextError("expected >-> in %r at %d" % (s, i))
        r, i = _p_type(s, i + 3)
        return t_fn(params, r), i
    for name in sorted(SIMPLE, key=len, reverse=True):
        if s.startswith(name, i):
            return name, i + len(name)
    raise TypeTextError("unknown type text in %r at %d" % (s, i))


# ------------------------------------------------------------------------------------------------
# the relations
# ------------------------------------------------------------------------------------------------

def equiv(a, b, dev=NODEV):
    """Type equivalence: structural identity (DMN 10.3.2.9.1): same constructor, equivalent components; contexts have
    the same entry names; functions the same number of parameters, equivalent parameters AND equivalent results."""
    if isinstance(a, str) or isinstance(b, str):
        return a == b
    if a[0] != b[0]:
        return False
    k = a[0]
    if k in ("list", "range"):
        return equiv(a[1], b[1], dev)
    if k == "context":
        ea, eb = a[1], b[1]
        if len(ea) != len(eb):
            return False
        for (na, ta), (nb, tb) in zip(ea, eb):       # both sorted by name
            if na != nb or not equiv(ta, tb, dev):
                return False
        return True
    pa, pb = a[1], b[1]
    if len(pa) != len(pb):
        return False
    for x, y in zip(pa, pb):
        if not equiv(x, y, dev):
            return False
    if not pa and "nullary" in dev:
        return True
    return equiv(a[2], b[2], dev)


def conf(a, b, dev=NODEV):
    """a conforms to b (a <: b), DMN 10.3.2.9.2: equivalent types conform; Null conforms to everything; everything
    conforms to Any; list/range covariant; a context type conforms to a context type all of whose entries it has with
    conforming types; functions: same number of parameters, parameters contravariant, result covariant."""
    if equiv(a, b, dev):
        return True
    if a == "Null" or b == "Any":
        return True
    if isinstance(a, str) or isinstance(b, str):
        return False
    if a[0] != b[0]:
        return False
    k = a[0]
    if k in ("list", "range"):
        return conf(a[1], b[1], dev)
    if k == "context":
        have = dict(a[1])
        for n, tb in b[1]:
            ta = have.get(n)
            if ta is None or not conf(ta, tb, dev):
                return False
        return True
    pa, pb = a[1], b[1]
    if len(pa) != len(pb):
        return False
    for x, y in zip(pa, pb):
        if not conf(y, x, dev):
            return False
    if not pa and "nullary" in dev:
        return True
    return conf(a[2], b[2], dev)


# ------------------------------------------------------------------------------------------------
# universes
# ------------------------------------------------------------------------------------------------

def constructors_over(base):
    """Every type built by ONE constructor application over `base`: list, range, context with 0..2 entries over the
    names a, b, function with 0..2 parameters. Simplest first."""
    out = []
    out += [t_list(t) for t in base]
    out += [t_range(t) for t in base]
    out.append(t_ctx([]))
    for n in NAMES:
        out += [t_ctx([(n, t)]) for t in base]
    out += [t_ctx([(NAMES[0], t), (NAMES[1], u)]) for t in base for u in base]
    out += [t_fn([], r) for r in base]
    out += [t_fn([p], r) for p in base for r in base]
    out += [t_fn([p, q], r) for p in base for q in base for r in base]
    return out


def universe_u1():
    """The ten simple types and everything one constructor application away: 10 + 10 + 10 + 121 + 1110 = 1261 types."""
    return list(SIMPLE) + constructors_over(SIMPLE)


# ------------------------------------------------------------------------------------------------
# values (driver wire format) and their types
# ------------------------------------------------------------------------------------------------

def type_of(v):
    """Type of a value in the driver's json. The conventions for lists and ranges are the SUT's (values.rs): the empty
    list is list<Null>, a list whose items do not all have the same type is list<Any>, a range whose end points have
    different types is range<Any>. The property statement quantifies over 'the type of the value' and leaves these
    conventions to the implementation."""
    if v is None:
        return "Null"
    if v is True or v is False:
        return "boolean"
    if "n" in v:
        return "number"
    if "s" in v:
        return "string"
    if "date" in v:
        return "date"
    if "time" in v:
        return "time"
    if "dt" in v:
        return "date and time"
    if "dtd" in v:
        return "days and time duration"
    if "ymd" in v:
        return "years and months duration"
    if "N" in v:
        return "Null"
    if "l" in v:
        items = v["l"]
        if not items:
            return t_list("Null")
        t0 = type_of(items[0])
        for x in items[1:]:
            if type_of(x) != t0:
                return t_list("Any")
        return t_list(t0)
    if "c" in v:
        return t_ctx([(n, type_of(x)) for n, x in v["c"]])
    if "r" in v:
        lo, _, hi, _ = v["r"]
        tl, th = type_of(lo), type_of(hi)
        return t_range(tl if tl == th else "Any")
    if "fn" in v:
        return t_fn([from_case(p) for p in v["fn"]["params"]], from_case(v["fn"]["result"]))
    if "f" in v:
        return t_fn([parse_shown(p[1]) for p in v["f"]["params"]], parse_shown(v["f"]["result"]))
    raise ValueError("type_of: unsupported value %r" % (v,))


def to_driver_value(v):
    """Case value ({"fn": {"params": [case types], "result": case type}} inside) -> request json for the c16 op."""
    if isinstance(v, dict):
        if "fn" in v:
            return {"fn": {"params": [to_driver(from_case(p)) for p in v["fn"]["params"]],
                           "result": to_driver(from_case(v["fn"]["result"]))}}
        if "l" in v:
            return {"l": [to_driver_value(x) for x in v["l"]]}
        if "c" in v:
            return {"c": [[n, to_driver_value(x)] for n, x in v["c"]]}
        if "r" in v:
            return {"r": [to_driver_value(v["r"][0]), v["r"][1], to_driver_value(v["r"][2]), v["r"][3]]}
    return v


def wire(v):
    """Normal form for comparing a case value with what the driver prints: numbers without the internal text, function
    values as the driver prints them (parameter names q9, q8, ... as the c16 op assigns them)."""
    if isinstance(v, dict):
        if "n" in v:
            return {"n": v["n"]}
        if "N" in v:
            return None
        if "fn" in v:
            return {"f": {"params": [["q%d" % (9 - i), show(from_case(p))] for i, p in enumerate(v["fn"]["params"])],
                          "result": show(from_case(v["fn"]["result"]))}}
        if "f" in v:
            return {"f": {"params": [[p[0], p[1]] for p in v["f"]["params"]], "result": v["f"]["result"]}}
        if "l" in v:
            return {"l": [wire(x) for x in v["l"]]}
        if "c" in v:
            return {"c": sorted([[n, wire(x)] for n, x in v["c"]])}
        if "r" in v:
            return {"r": [wire(v["r"][0]), v["r"][1], wire(v["r"][2]), v["r"][3]]}
    return v


def coerce(target, v, dev=NODEV):
    """(result value, rule) of coercing v to the target type, from the property statement: the value itself when its
    type conforms; else the singleton list [v] when THAT conforms; else, when v is a singleton list, its only item when
    THAT conforms; else null. `rule` in conforms | wrap | unwrap | null."""
    if conf(type_of(v), target, dev):
        return v, "conforms"
    wrapped = {"l": [v]}
    if conf(type_of(wrapped), target, dev):
        return wrapped, "wrap"
    if isinstance(v, dict) and "l" in v and len(v["l"]) == 1:
        if not ("nounwrap" in dev and kind(target) == "list"):
            item = v["l"][0]
            if conf(type_of(item), target, dev):
                return item, "unwrap"
    return None, "null"


def both_conversions_apply(target, v):
    """True when wrap and unwrap would both conform (then the statement does not say which one wins)."""
    if conf(type_of(v), target):
        return False
    if not conf(type_of({"l": [v]}), target):
        return False
    return isinstance(v, dict) and "l" in v and len(v["l"]) == 1 and conf(type_of(v["l"][0]), target)
