"""XML fault model for C12 (imports nothing from the SUT).

A hand-written tokenizer keeps the *source offsets* of every element, attribute and character-data node, so a fault
is a text splice `(start, end, replacement)` on the original file and `Doc.apply(faults)` is exact and cheap:
every byte outside the splice stays as it was written (prefixes, quoting, white space, comments).

Fault descriptors are small JSON objects (`{"op":..., "n": element index, ...}`); element / text indices are
preorder numbers in the *unmutated* document, so a case `{file, faults}` is self-contained and replayable.

Structural fault classes (all enumerated by `Doc.faults()`):
  el-delete, el-dup, el-empty, el-swap             at every element
  at-delete, at-empty, at-copy (from every other attribute of the same element), at-dict (dictionary per attribute
  name: hit policies, aggregations, booleans, function kinds, href shapes such as ":" and "##", generic junk)  at every attribute
  at-add (hitPolicy/aggregation on every decisionTable, isCollection on every item definition/component)
  tx-delete, tx-dict                                at every character-data node
  href-missing, href-self, href-ancestor, href-kind:<kind>   at every href attribute (every id-bearing DRG element and
                                                    item definition is a target)
  href-swap-kind                                    the element carrying the href is renamed to the other reference
                                                    kinds (requiredDecision <-> requiredInput <-> requiredKnowledge ...)
  typeref-el (self / ancestor / every top-level item definition / missing / FEEL built-in; added as first child or
  replacing the components)                         at every itemDefinition / itemComponent
  typeref-at (missing / every top-level item definition name)   at every typeRef attribute
Byte-level corruption is `corrupt(text, ops)`.
"""
import re

_NAME = r"[^\s<>/=\"'&;!?]+"
_ATTR = re.compile(r"(\s+)(" + _NAME + r")(\s*=\s*)(\"[^\"]*\"|'[^']*')")
_STAG = re.compile(r"<(" + _NAME + r")((?:\s+" + _NAME + r"\s*=\s*(?:\"[^\"]*\"|'[^']*'))*)\s*(/?)>")
_ETAG = re.compile(r"</(" + _NAME + r")\s*>")


class XmlError(Exception):
    pass


class El:
    __slots__ = ("idx", "tag", "start", "stag_end", "selfclosing", "etag_start", "end", "attrs", "children", "parent", "_els")

    def local(self):
        return self.tag.rsplit(":", 1)[-1]

    def attr(self, name):
        for a in self.attrs:
            if a.name == name:
                return a
        return None

    def elements(self):
        """child elements (cached: the tree is immutable after parsing)"""
        try:
            return self._els
        except AttributeError:
            self._els = [c for c in self.children if isinstance(c, El)]
            return self._els

    def path(self):
        parts = []
        e = self
        while e is not None:
            p = e.parent
            if p is None:
                parts.append(e.local())
            else:
                same = [c for c in p.elements() if c.tag == e.tag]
                parts.append(e.local() if len(same) == 1 else "%s[%d]" % (e.local(), same.index(e) + 1))
            e = p
        return "/".join(reversed(parts))


class Attr:
    __slots__ = ("name", "start", "vstart", "vend", "end", "value")
    # start: offset of the white space before the name; [vstart, vend) raw value between the quotes; end: after quote


class Txt:
    __slots__ = ("idx", "kind", "start", "end", "parent", "blank")
    # kind: text | cdata | comment | pi


def unescape(s):
    return (s.replace("&lt;", "<").replace("&gt;", ">").replace("&quot;", '"').replace("&apos;", "'").replace("&amp;", "&"))


def escape_text(s):
    return s.replace("&", "&amp;").replace("<", "&lt;").replace(">", "&gt;")


def escape_attr(s):
    return escape_text(s).replace('"', "&quot;").replace("'", "&apos;")


class Doc:
    def __init__(self, text, lenient=False):
        """lenient: elements still open at the end of the text are closed there (roxmltree 0.14 accepts such truncated
        documents, so the diagnosis functions of C12 must be able to read them too)."""
        self.lenient = lenient
        self.text = text
        self.elements = []   # preorder
        self.texts = []      # document order
        self.root = None
        self._parse()

    # -- tokenizer -----------------------------------------------------------------------------------------
    def _parse(self):
        t = self.text
        n = len(t)
        i = 0
        stack = []
        while i < n:
            if t[i] != "<":
                j = t.find("<", i)
                if j < 0:
                    j = n
                self._text("text", i, j, stack)
                i = j
                continue
            if t.startswith("<!--", i):
                j = t.find("-->", i + 4)
                if j < 0:
                    raise XmlError("unterminated comment")
                self._text("comment", i, j + 3, stack)
                i = j + 3
            elif t.startswith("<![CDATA[", i):
                j = t.find("]]>", i + 9)
                if j < 0:
                    raise XmlError("unterminated cdata")
                self._text("cdata", i, j + 3, stack)
                i = j + 3
            elif t.startswith("<?", i):
                j = t.find("?>", i + 2)
                if j < 0:
                    raise XmlError("unterminated pi")
                self._text("pi", i, j + 2, stack)
                i = j + 2
            elif t.startswith("<!", i):
                raise XmlError("DOCTYPE not supported")
            elif t.startswith("</", i):
                m = _ETAG.match(t, i)
                if not m or not stack or stack[-1].tag != m.group(1):
                    raise XmlError("unbalanced end tag at %d" % i)
                e = stack.pop()
                e.etag_start = i
                e.end = m.end()
                i = m.end()
            else:
                m = _STAG.match(t, i)
                if not m and self.lenient and t.find(">", i) < 0:
                    break   # the text ends inside a start tag (roxmltree 0.14 accepts that as well): ignore the fragment
                if not m:
                    raise XmlError("bad start tag at %d" % i)
                e = El()
                e.idx = len(self.elements)
                e.tag = m.group(1)
                e.start = i
                e.stag_end = m.end()
                e.selfclosing = m.group(3) == "/"
                e.attrs = []
                e.children = []
                e.parent = stack[-1] if stack else None
                e.etag_start = e.end = m.end()
                for am in _ATTR.finditer(t, m.end(1), m.end(2)):
                    a = Attr()
                    a.name = am.group(2)
                    a.start = am.start()
                    a.vstart = am.start(4) + 1
                    a.vend = am.end(4) - 1
                    a.end = am.end()
                    a.value = unescape(t[a.vstart:a.vend])
                    e.attrs.append(a)
                self.elements.append(e)
                if e.parent is not None:
                    e.parent.children.append(e)
                elif self.root is None:
                    self.root = e
                else:
                    raise XmlError("two root elements")
                if not e.selfclosing:
                    stack.append(e)
                i = m.end()
        if stack and self.lenient:
            for e in stack:
                e.etag_start = e.end = n
            stack = []
        if stack or self.root is None:
            raise XmlError("unclosed element")

    def _text(self, kind, a, b, stack):
        x = Txt()
        x.idx = len(self.texts)
        x.kind = kind
        x.start = a
        x.end = b
        x.parent = stack[-1] if stack else None
        x.blank = kind == "text" and self.text[a:b].strip() == ""
        self.texts.append(x)
        if x.parent is not None:
            x.parent.children.append(x)

    # -- DMN-shaped lookups (tag names only; no semantics) -------------------------------------------------
    DRG = ("inputData", "decision", "businessKnowledgeModel", "decisionService", "knowledgeSource")
    REF_TAGS = ("requiredDecision", "requiredInput", "requiredKnowledge", "outputDecision", "encapsulatedDecision",
                "inputDecision", "inputData", "requiredAuthority")

    def top(self, local):
        return [e for e in self.root.elements() if e.local() == local]

    def id_targets(self):
        """[(kind, id)] of every id-bearing direct child of the root that the SUT could resolve a reference to."""
        out = []
        for e in self.root.elements():
            k = e.local()
            if k in self.DRG or k == "itemDefinition":
                a = e.attr("id")
                if a is not None and a.value:
                    out.append((k, a.value))
        return out

    def item_definition_names(self):
        return [e.attr("name").value for e in self.top("itemDefinition") if e.attr("name") is not None]

    def invocable_names(self):
        out = []
        for k in ("decision", "businessKnowledgeModel", "decisionService"):
            for e in self.top(k):
                a = e.attr("name")
                if a is not None and a.value not in out:
                    out.append(a.value)
        return out

    def text_of(self, el, child):
        for c in el.elements():
            if c.local() == child:
                return unescape("".join(self.text[x.start:x.end] for x in c.children if isinstance(x, Txt) and x.kind == "text")).strip()
        return None

    # -- typical input ---------------------------------------------------------------------------------------
    def typical_input(self):
        """[[name, wire value]...] for every inputData (by its variable's typeRef, item definitions resolved to
        contexts / lists, recursion cut at depth 4) and every BKM formal parameter."""
        idefs = {}
        for e in self.top("itemDefinition"):
            a = e.attr("name")
            if a is not None:
                idefs.setdefault(a.value, e)
        sample_string = "a"
        for x in self.texts:
            if x.kind == "text" and not x.blank:
                m = re.search(r'"([^"\\]{1,30})"', unescape(self.text[x.start:x.end]))
                if m:
                    sample_string = m.group(1)
                    break

        def simple(t):
            t = (t or "").rsplit(":", 1)[-1].strip()
            if t == "number":
                return {"n": "1"}
            if t == "string":
                return {"s": sample_string}
            if t == "boolean":
                return True
            if t == "date":
                return {"date": "2020-02-29"}
            if t == "time":
                return {"time": "10:11:12"}
            if t in ("dateTime", "date and time"):
                return {"dt": "2020-02-29T10:11:12"}
            if t in ("dayTimeDuration", "days and time duration"):
                return {"dtd": "P1DT2H"}
            if t in ("yearMonthDuration", "years and months duration"):
                return {"ymd": "P1Y2M"}
            return None

        def of_item(e, depth):
            if depth > 4:
                return None
            coll = e.attr("isCollection") is not None and e.attr("isCollection").value == "true"
            comps = [c for c in e.elements() if c.local() == "itemComponent"]
            tr = self.text_of(e, "typeRef")
            if comps:
                v = {"c": [[c.attr("name").value, of_item(c, depth + 1)] for c in comps if c.attr("name") is not None]}
            else:
                v = of_type(tr, depth + 1)
            return {"l": [v]} if coll else v

        def of_type(t, depth=0):
            v = simple(t)
            if v is not None or t is None:
                return v if v is not None else {"n": "1"}
            name = t.strip()
            e = idefs.get(name) or idefs.get(name.rsplit(":", 1)[-1]) or idefs.get(name.rsplit(".", 1)[-1])
            if e is None or depth > 4:
                return {"n": "1"}
            return of_item(e, depth)

        out, seen = [], set()

        def add(name, tref):
            name = " ".join(name.split())
            if name and name not in seen:
                seen.add(name)
                out.append([name, of_type(tref)])

        for e in self.top("inputData"):
            a = e.attr("name")
            var = [c for c in e.elements() if c.local() == "variable"]
            tref = var[0].attr("typeRef").value if var and var[0].attr("typeRef") is not None else None
            if a is not None:
                add(a.value, tref)
        for e in self.elements:
            if e.local() == "formalParameter" and e.attr("name") is not None:
                add(e.attr("name").value, e.attr("typeRef").value if e.attr("typeRef") is not None else None)
        return out

    # -- fault enumeration -----------------------------------------------------------------------------------
    TEXT_DICT = ["-", "null", "1", "true", '"a"', "a b", "x +", "(", "[1..", "{", "function(", "1 2", ",", "for",
                 "1/0", "not(", "é", "\U0001F640", "[]", "?", "in", "> ", 'date("x")', "x" * 300]
    ATTR_DICT = {
        "hitPolicy": ["UNIQUE", "ANY", "PRIORITY", "FIRST", "RULE ORDER", "OUTPUT ORDER", "COLLECT", "collect"],
        "aggregation": ["COUNT", "SUM", "MIN", "MAX", "LIST"],
        "isCollection": ["true", "false", "TRUE"],
        "kind": ["FEEL", "Java", "PMML", "feel"],
        "preferredOrientation": ["Rule-as-Row", "Rule-as-Column", "CrossTable", "x"],
        "href": ["x y", "1", "\U0001F640", "-", ":", "://x/y#z", "#", "##", "http://c12.example/ns#_d1", "?q", "%41", "a:b"],
        "": ["x y", "1", "\U0001F640", "a.b", "feel:number", "-"],
    }
    BUILTIN_TYPES = ["number", "string", "Any", "feel:boolean"]

    def faults(self):
        """Yields every single structural fault, grouped by class, cheap classes first."""
        els, txs = self.elements, self.texts
        for e in els:
            yield {"op": "el-delete", "n": e.idx}
        for e in els:
            if not e.selfclosing and e.etag_start > e.stag_end:
                yield {"op": "el-empty", "n": e.idx}
        for e in els:
            yield {"op": "el-dup", "n": e.idx}
        for e in els:
            if self._next_sibling(e) is not None:
                yield {"op": "el-swap", "n": e.idx}
        for e in els:
            for k, a in enumerate(e.attrs):
                yield {"op": "at-delete", "n": e.idx, "a": k}
        for e in els:
            for k, a in enumerate(e.attrs):
                if a.vend > a.vstart:
                    yield {"op": "at-empty", "n": e.idx, "a": k}
        for e in els:
            for k, a in enumerate(e.attrs):
                seen = {a.value}
                for k2, b in enumerate(e.attrs):
                    if k2 != k and b.value not in seen:
                        seen.add(b.value)
                        yield {"op": "at-copy", "n": e.idx, "a": k, "b": k2}
        for e in els:
            for k, a in enumerate(e.attrs):
                if a.name.startswith("xmlns"):
                    continue
                for v in self.ATTR_DICT.get(a.name, self.ATTR_DICT[""]):
                    if v != a.value:
                        yield {"op": "at-dict", "n": e.idx, "a": k, "v": v}
        for e in els:
            if e.local() == "decisionTable":
                for name in ("hitPolicy", "aggregation"):
                    if e.attr(name) is None:
                        for v in self.ATTR_DICT[name]:
                            yield {"op": "at-add", "n": e.idx, "name": name, "v": v}
            elif e.local() in ("itemDefinition", "itemComponent") and e.attr("isCollection") is None:
                yield {"op": "at-add", "n": e.idx, "name": "isCollection", "v": "true"}
        for x in txs:
            if x.parent is not None or x.kind != "text":
                yield {"op": "tx-delete", "t": x.idx}
        for x in txs:
            if x.parent is None:
                continue
            if x.kind != "text" or x.blank:
                yield {"op": "tx-dict", "t": x.idx, "v": "x"}
            else:
                cur = unescape(self.text[x.start:x.end]).strip()
                for v in self.TEXT_DICT:
                    if v != cur:
                        yield {"op": "tx-dict", "t": x.idx, "v": v}
        # references
        targets = self.id_targets()
        for e in els:
            for k, a in enumerate(e.attrs):
                if a.name != "href":
                    continue
                cur = a.value
                yield {"op": "href", "cls": "href-missing", "n": e.idx, "a": k, "v": "#_missing_c12_"}
                yield {"op": "href", "cls": "href-missing", "n": e.idx, "a": k, "v": "_missing_c12_"}
                done = {cur}
                p = e.parent
                while p is not None:
                    ia = p.attr("id")
                    if ia is not None and ia.value and "#" + ia.value not in done:
                        done.add("#" + ia.value)
                        # the DRG element (child of the root) that contains the reference is "its own element"
                        cls = "href-self" if p.parent is self.root else "href-ancestor"
                        yield {"op": "href", "cls": cls, "n": e.idx, "a": k, "v": "#" + ia.value}
                    p = p.parent
                for kind, i in targets:
                    if "#" + i not in done:
                        done.add("#" + i)
                        yield {"op": "href", "cls": "href-kind:" + kind, "n": e.idx, "a": k, "v": "#" + i}
                for tag in ("requiredDecision", "requiredInput", "requiredKnowledge"):
                    if e.local() in ("requiredDecision", "requiredInput", "requiredKnowledge") and tag != e.local():
                        yield {"op": "el-rename", "cls": "href-swap-kind", "n": e.idx, "v": tag}
        idnames = self.item_definition_names()
        for e in els:
            if e.local() not in ("itemDefinition", "itemComponent"):
                continue
            cands = []
            p = e
            while p is not None and p.local() in ("itemDefinition", "itemComponent"):
                a = p.attr("name")
                if a is not None:
                    cands.append(("self" if p is e else "ancestor", a.value))
                p = p.parent
            for nm in idnames:
                if all(nm != c[1] for c in cands):
                    cands.append(("other", nm))
            cands.append(("missing", "tMissingC12"))
            for b in self.BUILTIN_TYPES:
                cands.append(("builtin", b))
            cur = self.text_of(e, "typeRef")
            has_comps = any(c.local() == "itemComponent" for c in e.elements())
            for why, nm in cands:
                if nm == cur:
                    continue
                yield {"op": "typeref-el", "cls": "typeref-el:" + why, "n": e.idx, "v": nm, "mode": "set"}
                if why in ("self", "ancestor", "other"):
                    # the same reference written on a line of its own (white space around the name, as XML editors indent it)
                    yield {"op": "typeref-el", "cls": "typeref-el:" + why + "+padded", "n": e.idx, "v": "\n      " + nm + "\n    ", "mode": "set"}
                if has_comps:
                    yield {"op": "typeref-el", "cls": "typeref-el:" + why + "+drop-components", "n": e.idx, "v": nm, "mode": "replace"}
        for e in els:
            for k, a in enumerate(e.attrs):
                if a.name in ("typeRef", "outputTypeRef"):
                    for nm in ["tMissingC12"] + idnames:
                        if nm != a.value:
                            yield {"op": "at-dict", "cls": "typeref-at", "n": e.idx, "a": k, "v": nm}
                    for nm in idnames:
                        yield {"op": "at-dict", "cls": "typeref-at:padded", "n": e.idx, "a": k, "v": " " + nm + " "}

    @staticmethod
    def fault_class(f):
        return f.get("cls") or f["op"]

    def _next_sibling(self, e):
        if e.parent is None:
            return None
        sib = e.parent.elements()
        i = sib.index(e)
        return sib[i + 1] if i + 1 < len(sib) else None

    def describe(self, f):
        if "n" in f:
            e = self.elements[f["n"]]
            s = "%s @ %s" % (self.fault_class(f), e.path())
            if "a" in f:
                s += " @%s" % e.attrs[f["a"]].name
            if "b" in f:
                s += " <- @%s" % e.attrs[f["b"]].name
            if "name" in f:
                s += " +@%s" % f["name"]
        else:
            x = self.texts[f["t"]]
            s = "%s @ %s/%s()#%d" % (self.fault_class(f), x.parent.path() if x.parent is not None else "", x.kind, f["t"])
        if "v" in f:
            s += " = %r" % (f["v"][:40],)
        return s

    # -- application -------------------------------------------------------------------------------------------
    def dup_mut_faults(self):
        """Compound faults: a top-level element that carries an id is duplicated and ONE of the two copies gets a reference fault
        (href / typeRef retargeting). Two elements with one id and different references: whichever of "first wins" and "last wins"
        a consumer applies, another consumer of the same id may apply the other."""
        tops = [e for e in self.elements if e.parent is not None and e.parent.parent is None and e.attr("id") is not None]
        inner = [f for f in self.faults() if (self.fault_class(f).startswith("href-") or self.fault_class(f).startswith("typeref")) and "n" in f]
        for e in tops:
            for f in inner:
                x = self.elements[f["n"]]
                if e.start <= x.start and x.end <= e.end:
                    for which in ("first", "second"):
                        yield {"op": "dup-mut", "cls": "dup-mut:" + self.fault_class(f).split(":")[0], "n": e.idx, "inner": f, "which": which}

    def sibling_pairs(self):
        """Compensating pairs of faults under one parent: one child element deleted and a sibling with ANOTHER tag duplicated, so that the
        number of children stays what it was while the numbers per kind do not (a rule with an input entry too many and an output entry
        too few). Per parent and ordered pair of tags: the first and the last child of each tag."""
        for p in self.elements:
            kids = p.elements()
            if len(kids) < 2:
                continue
            by_tag = {}
            for k in kids:
                by_tag.setdefault(k.tag, []).append(k)
            if len(by_tag) < 2:
                continue
            for ta, la in by_tag.items():
                for tb, lb in by_tag.items():
                    if ta == tb:
                        continue
                    for a in {la[0].idx, la[-1].idx}:
                        for b in {lb[0].idx, lb[-1].idx}:
                            yield [{"op": "el-delete", "n": a}, {"op": "el-dup", "n": b}]

    def splices(self, f):
        t = self.text
        op = f["op"]
        if op == "dup-mut":
            e = self.elements[f["n"]]
            seg = t[e.start:e.end]
            out, pos = [], e.start
            for a, b, r in sorted(s for s in self.splices(f["inner"]) if e.start <= s[0] and s[1] <= e.end):
                if a < pos:
                    continue
                out.append(t[pos:a])
                out.append(r)
                pos = b
            out.append(t[pos:e.end])
            mut = "".join(out)
            return [(e.start, e.end, (mut + seg) if f["which"] == "first" else (seg + mut))]
        if op in ("tx-delete", "tx-dict"):
            x = self.texts[f["t"]]
            if op == "tx-delete":
                return [(x.start, x.end, "")]
            return [(x.start, x.end, escape_text(f["v"]))]
        e = self.elements[f["n"]]
        if op == "el-delete":
            return [(e.start, e.end, "")]
        if op == "el-dup":
            return [(e.end, e.end, t[e.start:e.end])]
        if op == "el-empty":
            return [(e.stag_end, e.etag_start, "")]
        if op == "el-swap":
            nx = self._next_sibling(e)
            return [(e.start, nx.end, t[nx.start:nx.end] + t[e.end:nx.start] + t[e.start:e.end])]
        if op == "el-rename":
            pre = e.tag[: len(e.tag) - len(e.local())]
            out = [(e.start + 1, e.start + 1 + len(e.tag), pre + f["v"])]
            if not e.selfclosing:
                out.append((e.etag_start + 2, e.etag_start + 2 + len(e.tag), pre + f["v"]))
            return out
        if op == "at-add":
            pos = e.start + 1 + len(e.tag)
            return [(pos, pos, ' %s="%s"' % (f["name"], escape_attr(f["v"])))]
        if op == "typeref-el":
            pre = e.tag[: len(e.tag) - len(e.local())]
            new = "<%stypeRef>%s</%stypeRef>" % (pre, escape_text(f["v"]), pre)
            existing = [c for c in e.elements() if c.local() == "typeRef"]
            comps = [c for c in e.elements() if c.local() == "itemComponent"]
            out = []
            if e.selfclosing:
                return [(e.start, e.end, t[e.start:e.stag_end].rstrip(">").rstrip("/") + ">" + new + "</" + e.tag + ">")]
            if existing:
                out.append((existing[0].start, existing[0].end, new))
            else:
                out.append((e.stag_end, e.stag_end, new))
            if f.get("mode") == "replace":
                for c in comps:
                    out.append((c.start, c.end, ""))
            return out
        a = e.attrs[f["a"]]
        if op == "at-delete":
            return [(a.start, a.end, "")]
        if op == "at-empty":
            return [(a.vstart, a.vend, "")]
        if op == "at-copy":
            b = e.attrs[f["b"]]
            return [(a.vstart, a.vend, escape_attr(b.value))]
        if op in ("at-dict", "href"):
            return [(a.vstart, a.vend, escape_attr(f["v"]))]
        raise ValueError("unknown fault op %r" % (op,))

    def top_of(self, f):
        """index of the child of the root that contains the fault (-1: the root itself or outside it)"""
        e = self.elements[f["n"]] if "n" in f else self.texts[f["t"]].parent
        if e is None or e.parent is None:
            return -1
        while e.parent.parent is not None:
            e = e.parent
        return e.idx

    def span(self, f):
        s = self.splices(f)
        return min(x[0] for x in s), max(x[1] for x in s)

    def overlaps(self, f, g):
        a, b = self.span(f)
        c, d = self.span(g)
        if a == b or c == d:   # pure insertions never overlap a replaced range unless strictly inside it
            return (a == b and c < a < d) or (c == d and a < c < b) or (a == b == c == d)
        return a < d and c < b

    def apply(self, faults):
        """Text with the faults applied. Overlapping splices: the one that starts first (the outer one) wins and
        the other is dropped; the second return value says how many faults were actually applied."""
        sp = []
        for k, f in enumerate(faults):
            for s in self.splices(f):
                sp.append((s[0], s[1], s[2], k))
        sp.sort(key=lambda s: (s[0], -s[1], s[3]))
        out, pos, applied = [], 0, set()
        for a, b, r, k in sp:
            if a < pos:
                continue
            out.append(self.text[pos:a])
            out.append(r)
            pos = b
            applied.add(k)
        out.append(self.text[pos:])
        return "".join(out), len(applied)

    def value_positions(self):
        """(start, end) ranges of attribute values and non-blank character data: where a byte-level corruption keeps
        the document well-formed most of the time."""
        out = []
        for e in self.elements:
            for a in e.attrs:
                if a.vend > a.vstart:
                    out.append((a.vstart, a.vend))
        for x in self.texts:
            if x.kind == "text" and not x.blank and x.parent is not None:
                out.append((x.start, x.end))
        return out


BYTE_TOKENS = ["<", ">", "&", '"', "'", "</", "/>", "<!--", "-->", "]]>", "<![CDATA[", "&#0;", "&#x110000;", "&amp;", "&lt;",
               "\x00", "\x7f", "�", "é", "\U0001F640", "\t", "\n", "=", " ", "<a>", "</a>", "&x;", "<?", "?>",
               "<!DOCTYPE a [<!ENTITY e 'eeeeeeeeee'>]>", "&e;", "‮", "퟿", "﻿"]


def corrupt(text, ops):
    """ops: [["flip", pos, bit] | ["trunc", pos] | ["ins", pos, token index] | ["del", pos, len] | ["dupspan", pos, len]].
    Works on the UTF-8 bytes; the result is decoded with replacement (the SUT's API takes &str: invalid UTF-8 cannot
    reach it)."""
    b = bytearray(text.encode("utf-8"))
    for op in ops:
        k = op[0]
        if not b:
            break
        p = op[1] % (len(b) + (1 if k in ("ins", "trunc") else 0))
        if k == "flip":
            b[p] ^= 1 << (op[2] % 8)
        elif k == "trunc":
            del b[p:]
        elif k == "ins":
            b[p:p] = BYTE_TOKENS[op[2] % len(BYTE_TOKENS)].encode("utf-8", "replace")
        elif k == "del":
            del b[p:p + max(1, op[2])]
        elif k == "dupspan":
            b[p:p] = b[p:p + max(1, op[2])]
    return b.decode("utf-8", "replace")


def well_formed(text):
    """Independent judgement (expat) of whether a text is still an XML document: the non-triviality rule of C12."""
    import xml.parsers.expat as expat
    p = expat.ParserCreate()
    try:
        p.Parse(text.encode("utf-8", "replace"), True)
        return True
    except (expat.ExpatError, ValueError, LookupError):   # LookupError: the corrupted declaration names an unknown encoding
        return False


# ---------------------------------------------------------------------------------------------------------------
# generated models: small valid DMN 1.3 documents covering every expression kind the loader knows
# ---------------------------------------------------------------------------------------------------------------

HIT_POLICIES = [("UNIQUE", None), ("FIRST", None), ("ANY", None), ("PRIORITY", None), ("RULE ORDER", None), ("OUTPUT ORDER", None),
                ("COLLECT", None), ("COLLECT", "SUM"), ("COLLECT", "COUNT"), ("COLLECT", "MIN"), ("COLLECT", "MAX")]


def gen_model(src):
    """A valid model drawn from `src`: 0-3 item definitions (simple with allowed values, components, collection,
    reference), 1-3 input data, 0-2 knowledge models (the second requires the first), 1-4 decisions whose logic is a
    literal expression, decision table, context, invocation, relation or function definition and which require inputs,
    earlier decisions and knowledge models, and optionally a decision service."""
    x = escape_text
    out = ['<?xml version="1.0" encoding="UTF-8"?>',
           '<definitions namespace="https://c12.example" name="gen" id="_defs" xmlns="https://www.omg.org/spec/DMN/20191111/MODEL/">']
    simple = ["number", "string", "boolean"]
    idefs = []   # (name, base simple type or None)
    for i in range(src.int(0, 3)):
        kind = src.choice(["simple-av", "component", "collection", "ref"])
        name = "t%s%d" % (kind[0].upper(), i + 1)
        if kind == "ref" and not idefs:
            kind = "simple-av"
        if kind == "simple-av":
            t = src.choice(["number", "string"])
            av = "[0..100]" if t == "number" else '"a", "b", "c"'
            out.append('  <itemDefinition name="%s" id="_t%d"><typeRef>%s</typeRef><allowedValues><text>%s</text></allowedValues></itemDefinition>' % (name, i + 1, t, x(av)))
            idefs.append((name, t))
        elif kind == "component":
            inner = idefs[-1][0] if idefs and src.bool(0.4) else "string"
            out.append('  <itemDefinition name="%s" id="_t%d">' % (name, i + 1))
            out.append('    <itemComponent name="num" id="_t%dc1"><typeRef>number</typeRef></itemComponent>' % (i + 1))
            out.append('    <itemComponent name="sub part" id="_t%dc2"><typeRef>%s</typeRef></itemComponent>' % (i + 1, inner))
            out.append('    <itemComponent name="deep" id="_t%dc3"><itemComponent name="leaf" isCollection="true"><typeRef>boolean</typeRef></itemComponent></itemComponent>' % (i + 1))
            out.append('  </itemDefinition>')
            idefs.append((name, None))
        elif kind == "collection":
            out.append('  <itemDefinition name="%s" id="_t%d" isCollection="true"><typeRef>%s</typeRef></itemDefinition>' % (name, i + 1, src.choice(simple)))
            idefs.append((name, None))
        else:
            ref = idefs[src.int(0, len(idefs) - 1)]
            out.append('  <itemDefinition name="%s" id="_t%d"%s><typeRef>%s</typeRef></itemDefinition>' % (
                name, i + 1, ' isCollection="true"' if src.bool(0.3) else "", ref[0]))
            idefs.append((name, None))
    # inputs
    inputs = []   # (name, id, simple type or None)
    for i in range(src.int(1, 3)):
        if idefs and src.bool(0.4):
            tn, base = idefs[src.int(0, len(idefs) - 1)]
        else:
            tn = src.choice(simple)
            base = tn
        name = ["In1", "In 2", "In+3"][i]
        inputs.append((name, "_i%d" % (i + 1), base))
        out.append('  <inputData name="%s" id="_i%d"><variable name="%s" typeRef="%s"/></inputData>' % (x(name), i + 1, x(name), tn))

    def entry_for(base, k):
        if base == "number":
            return ["-", "> 0", "[0..10]", "1, 2", "not(5)", "<= 100"][k % 6]
        if base == "string":
            return ["-", '"a"', '"a", "b"', 'not("c")'][k % 4]
        if base == "boolean":
            return ["-", "true", "false"][k % 3]
        return "-"

    def table(names_types, indent):
        """names_types: [(expression text, simple type or None)] usable as input expressions."""
        hp, agg = src.choice(HIT_POLICIES)
        n_in = src.int(0, min(3, len(names_types)))
        n_out = 1 if agg in ("SUM", "MIN", "MAX") else src.weighted([(5, 1), (3, 2), (1, 3)])
        n_rules = src.int(1, 4)
        ins = [names_types[(k + src.int(0, 2)) % len(names_types)] for k in range(n_in)] if names_types else []
        numeric = agg is not None or src.bool(0.5)
        p = " " * indent
        o = ['%s<decisionTable hitPolicy="%s"%s%s>' % (p, hp, ' aggregation="%s"' % agg if agg else "",
                                                       ' outputLabel="out"' if src.bool(0.3) else "")]
        for k, (e, b) in enumerate(ins):
            iv = ""
            if b == "string" and src.bool(0.3):
                iv = '<inputValues><text>%s</text></inputValues>' % x('"a", "b", "c"')
            o.append('%s  <input id="_in%d"><inputExpression typeRef="%s"><text>%s</text></inputExpression>%s</input>' % (p, k, b or "Any", x(e), iv))
        for k in range(n_out):
            nm = ' name="o%d"' % (k + 1) if n_out > 1 else ""
            ov = ""
            if hp in ("PRIORITY", "OUTPUT ORDER") or src.bool(0.2):
                ov = '<outputValues><text>%s</text></outputValues>' % x("3, 2, 1" if numeric else '"z", "y", "x"')
            de = ""
            if src.bool(0.3):
                de = '<defaultOutputEntry><text>%s</text></defaultOutputEntry>' % x("0" if numeric else '"d"')
            o.append('%s  <output%s typeRef="%s">%s%s</output>' % (p, nm, "number" if numeric else "string", ov, de) if (ov or de)
                     else '%s  <output%s typeRef="%s"/>' % (p, nm, "number" if numeric else "string"))
        for r in range(n_rules):
            o.append('%s  <rule id="_r%d">' % (p, r))
            for k, (e, b) in enumerate(ins):
                o.append('%s    <inputEntry><text>%s</text></inputEntry>' % (p, x(entry_for(b, r + k + src.int(0, 1)))))
            for k in range(n_out):
                v = str(1 + (r + k) % 3) if numeric else '"%s"' % "xyz"[(r + k) % 3]
                o.append('%s    <outputEntry><text>%s</text></outputEntry>' % (p, x(v)))
            o.append('%s  </rule>' % p)
        o.append('%s</decisionTable>' % p)
        return o

    def literal(names_types, indent):
        p = " " * indent
        if names_types:
            e, b = names_types[src.int(0, len(names_types) - 1)]
            if b == "number":
                t = src.choice([e, "%s + 1" % e, "if %s > 1 then \"big\" else \"small\"" % e, "[%s, 2]" % e, "decimal(%s / 3, 2)" % e])
            elif b == "string":
                t = src.choice([e, "string length(%s)" % e, "upper case(%s) + \"!\"" % e, "{a: %s}.a" % e])
            elif b == "boolean":
                t = src.choice([e, "not(%s)" % e, "%s and true" % e])
            else:
                t = src.choice([e, "%s != null" % e, "[%s]" % e])
        else:
            t = src.choice(["1 + 1", '"lit"', "[1, 2, 3]", "{a: 1, b: \"x\"}"])
        return ['%s<literalExpression><text>%s</text></literalExpression>' % (p, x(t))]

    # knowledge models
    bkms = []   # (name, id, [param names])
    for i in range(src.int(0, 2)):
        name = "Bkm%d" % (i + 1)
        params = [("p", "number"), ("q text", "string")][: src.int(1, 2)]
        out.append('  <businessKnowledgeModel name="%s" id="_b%d">' % (name, i + 1))
        out.append('    <variable name="%s"/>' % name)
        if i == 1:
            out.append('    <knowledgeRequirement id="_b2k"><requiredKnowledge href="#_b1"/></knowledgeRequirement>')
        out.append('    <encapsulatedLogic%s>' % (' kind="FEEL"' if src.bool(0.3) else ""))
        for pn, pt in params:
            out.append('      <formalParameter name="%s" typeRef="%s"/>' % (pn, pt))
        if i == 1 and src.bool(0.6):
            out.append('      <literalExpression><text>Bkm1(p) </text></literalExpression>')
        elif src.bool(0.5):
            out.extend(table(params, 6))
        else:
            out.extend(literal(params, 6))
        out.append('    </encapsulatedLogic>')
        out.append('  </businessKnowledgeModel>')
        bkms.append((name, "_b%d" % (i + 1), [pn for pn, _ in params]))
    # decisions
    decisions = []   # (name, id)
    n_dec = src.int(1, 4)
    want_service = src.bool(0.35)
    for i in range(n_dec):
        name = ["Dec1", "Dec 2", "Dec3", "Dec-4"][i]
        did = "_d%d" % (i + 1)
        avail = [(n, b) for n, _, b in inputs if "+" not in n]
        req_inputs = [inputs[k] for k in range(len(inputs)) if src.bool(0.7)] or [inputs[0]]
        avail = [(n, b) for n, _, b in req_inputs if "+" not in n and " " not in n] or []
        req_decs = [d for d in decisions if src.bool(0.6)]
        req_bkm = bkms[src.int(0, len(bkms) - 1)] if bkms and src.bool(0.6) else None
        kind = src.weighted([(5, "table"), (3, "literal"), (2, "context"), (2, "invocation"), (1, "relation"), (1, "function")])
        if kind == "invocation" and req_bkm is None:
            kind = "table"
        out.append('  <decision name="%s" id="%s">' % (name, did))
        out.append('    <variable name="%s"%s/>' % (name, ' typeRef="%s"' % src.choice(["Any", "number", "string"]) if src.bool(0.3) else ""))
        for n, iid, _ in req_inputs:
            out.append('    <informationRequirement id="%s_%s"><requiredInput href="#%s"/></informationRequirement>' % (did, iid, iid))
        for dn, di in req_decs:
            out.append('    <informationRequirement><requiredDecision href="#%s"/></informationRequirement>' % di)
        if req_bkm:
            out.append('    <knowledgeRequirement><requiredKnowledge href="#%s"/></knowledgeRequirement>' % req_bkm[1])
        names_types = avail + [(dn, None) for dn, _ in req_decs if " " not in dn and "-" not in dn]
        if kind == "table":
            out.extend(table(names_types, 4))
        elif kind == "literal":
            out.extend(literal(names_types, 4))
        elif kind == "context":
            out.append('    <context>')
            out.append('      <contextEntry><variable name="first" typeRef="number"/><literalExpression><text>1</text></literalExpression></contextEntry>')
            out.append('      <contextEntry><variable name="second"/>')
            out.extend(table(names_types + [("first", "number")], 8) if src.bool(0.4) else literal(names_types + [("first", "number")], 8))
            out.append('      </contextEntry>')
            if src.bool(0.7):
                out.append('      <contextEntry><literalExpression><text>[first, second]</text></literalExpression></contextEntry>')
            out.append('    </context>')
        elif kind == "invocation":
            out.append('    <invocation>')
            out.append('      <literalExpression><text>%s</text></literalExpression>' % req_bkm[0])
            for pn in req_bkm[2]:
                out.append('      <binding><parameter name="%s"/><literalExpression><text>%s</text></literalExpression></binding>' % (
                    pn, "1" if pn == "p" else '"a"'))
            out.append('    </invocation>')
        elif kind == "relation":
            out.append('    <relation>')
            out.append('      <column name="c1" typeRef="string"/><column name="c 2" typeRef="number"/>')
            for r in range(src.int(1, 2)):
                out.append('      <row><literalExpression><text>"r%d"</text></literalExpression><literalExpression><text>%d</text></literalExpression></row>' % (r, r))
            out.append('    </relation>')
        else:
            out.append('    <functionDefinition><literalExpression><text>function() 1 + 1</text></literalExpression></functionDefinition>')
        out.append('  </decision>')
        decisions.append((name, did))
    if want_service:
        out.append('  <decisionService name="Svc" id="_s1">')
        out.append('    <variable name="Svc"/>')
        out.append('    <outputDecision href="#%s"/>' % decisions[-1][1])
        if len(decisions) > 2:
            out.append('    <encapsulatedDecision href="#%s"/>' % decisions[1][1])
        if len(decisions) > 1 and src.bool(0.6):
            out.append('    <inputDecision href="#%s"/>' % decisions[0][1])
        if src.bool(0.7):
            out.append('    <inputData href="#%s"/>' % inputs[0][1])
        out.append('  </decisionService>')
        if src.bool(0.5):
            out.append('  <decision name="Caller" id="_d9"><variable name="Caller"/>'
                       '<knowledgeRequirement><requiredKnowledge href="#_s1"/></knowledgeRequirement>'
                       '<literalExpression><text>Svc(%s)</text></literalExpression></decision>' % ", ".join(["1"] * 1))
    out.append('</definitions>')
    return "\n".join(out) + "\n"
