"""Reference model of the workspace (property C17), written from the property statement; imports nothing from the SUT.

State: the ordered list of stored models (namespace, name, tag) and the deployed evaluators (name -> tag).
    add(m)            succeeds iff no stored model has m's namespace or m's name; appends; a modification
    remove(ns, name)  reading "exact":  removes the stored model that has this namespace AND this name;
                      reading "either": removes every stored model that has this namespace OR this name
                      (the statement does not say which models a partly matching remove designates; both readings keep
                      every invariant of the statement, and they coincide whenever no stored model matches only one of
                      the two arguments); a modification
    replace(m)        remove(m.namespace, m.name) then add(m)
    clear             removes everything; a modification
    deploy            evaluators := the stored models that build (a model that does not build is skipped)
    evaluate(name)    possible iff `name` is among the evaluators
Every call of remove / replace / clear and every successful add is "a modification" and empties the evaluators
(workspace.rs documents each of them as "deletes all model evaluators, switches a workspace to state STASHING"); a
rejected add changes nothing.
The lookups by namespace and by name hold exactly the namespaces / names of the list.

`dev` selects a *deviation model* used only to diagnose a disagreement (never to accept one):
    "remove-or"   remove(ns, name) deletes the key `ns` from the namespace index and the key `name` from the name
                  index (one key each), but deletes from the list every model whose namespace is ns OR whose name is
                  name; add consults the indexes. (replace inherits it.)
"""
from .workspace_models import MODELS, EVAL_NAMES

NODEV = frozenset()
REMOVE_OR = frozenset(["remove-or"])


class Model:
    def __init__(self, dev=NODEV, reading="exact"):
        self.dev = dev
        self.reading = reading
        self.list = []            # [(ns, name, tag)]
        self.idx_ns = set()       # only meaningful for deviation models; the reference derives the indexes from the list
        self.idx_name = set()
        self.deployed = {}        # name -> tag

    # ---- what the snapshot hook should show
    def by_namespace(self):
        if self.dev:
            return sorted(self.idx_ns)
        return sorted(set(m[0] for m in self.list))

    def by_name(self):
        if self.dev:
            return sorted(self.idx_name)
        return sorted(set(m[1] for m in self.list))

    def snapshot(self):
        return {"list": [[m[0], m[1]] for m in self.list], "by_namespace": self.by_namespace(), "by_name": self.by_name(),
                "evaluators": sorted(self.deployed)}

    def evaluate(self, name):
        if name in self.deployed:
            return ["value", MODELS[self.deployed[name]][3]]
        return ["err"]

    def evaluations(self):
        return {n: self.evaluate(n) for n in EVAL_NAMES}

    # ---- operations; each returns the expected response: ["ok"] | ["err", set of acceptable reasons]
    def add(self, tag):
        ns, name = MODELS[tag][0], MODELS[tag][1]
        if self.dev:
            if ns in self.idx_ns:
                return ["err", ["namespace"]]
            if name in self.idx_name:
                return ["err", ["name"]]
        else:
            reasons = []
            if any(m[0] == ns for m in self.list):
                reasons.append("namespace")
            if any(m[1] == name for m in self.list):
                reasons.append("name")
            if reasons:
                return ["err", reasons]
        self.list.append((ns, name, tag))
        self.idx_ns.add(ns)
        self.idx_name.add(name)
        self.deployed = {}
        return ["ok"]

    def remove(self, ns, name):
        if "remove-or" in self.dev:
            self.idx_ns.discard(ns)
            self.idx_name.discard(name)
            self.list = [m for m in self.list if m[0] != ns and m[1] != name]
        else:
            if self.reading == "exact":
                self.list = [m for m in self.list if not (m[0] == ns and m[1] == name)]
            else:
                self.list = [m for m in self.list if m[0] != ns and m[1] != name]
            self.idx_ns = set(m[0] for m in self.list)
            self.idx_name = set(m[1] for m in self.list)
        self.deployed = {}
        return ["ok"]

    def replace(self, tag):
        self.remove(MODELS[tag][0], MODELS[tag][1])
        return self.add(tag)

    def clear(self):
        self.list = []
        self.idx_ns = set()
        self.idx_name = set()
        self.deployed = {}
        return ["ok"]

    def deploy(self):
        self.deployed = {}
        for ns, name, tag in self.list:
            if MODELS[tag][2]:
                self.deployed[name] = tag
        return ["ok"]

    def apply(self, op):
        k = op[0]
        if k == "add":
            return self.add(op[1])
        if k == "replace":
            return self.replace(op[1])
        if k == "remove":
            return self.remove(op[1], op[2])
        if k == "clear":
            return self.clear()
        if k == "deploy":
            return self.deploy()
        raise ValueError("unknown op %r" % (op,))

    # ---- trigger set of the "remove-or" defect: a remove whose arguments match some stored model only partly
    def partial_match(self, ns, name):
        return any((m[0] == ns) != (m[1] == name) for m in self.list)

    def triggers(self, op):
        if op[0] == "remove":
            return self.partial_match(op[1], op[2])
        if op[0] == "replace":
            return self.partial_match(MODELS[op[1]][0], MODELS[op[1]][1])
        return False


def snapshot_invariants(snap):
    """The statement's invariants that can be read off a single snapshot: 'the lookups by name and by namespace always
    describe the same set as the stored list' (no stale reservation, nothing stored twice). -> list of texts."""
    out = []
    lst = snap["list"]
    nss, names = [m[0] for m in lst], [m[1] for m in lst]
    if sorted(set(nss)) != sorted(snap["by_namespace"]):
        out.append("namespace lookup %s != namespaces of the list %s" % (snap["by_namespace"], sorted(set(nss))))
    if sorted(set(names)) != sorted(snap["by_name"]):
        out.append("name lookup %s != names of the list %s" % (snap["by_name"], sorted(set(names))))
    if len(set(nss)) != len(nss):
        out.append("a namespace is stored twice: %s" % lst)
    if len(set(names)) != len(names):
        out.append("a name is stored twice: %s" % lst)
    if not set(snap["evaluators"]) <= set(names):
        out.append("evaluators %s for names that are not stored %s" % (snap["evaluators"], names))
    return out
