"""Decision-table model shared by C03 and C19: plain JSON data + generator strategy + FEEL text of every part.

A table is a dict (JSON-serialisable, no SUT types):
  {"hp": "U"|"A"|"P"|"F"|"R"|"O"|"C"|"C+"|"C<"|"C>"|"C#",
   "name": str|None                      information item name (drawing only / decision name in XML)
   "label": str|None                     output label
   "inputs":  [{"expr": name, "kind": "num"|"str"|"bool", "values": [test...]|None}]      values = allowed input values
   "outputs": [{"name": str|None, "kind": "num"|"str", "values": [lit...]|None, "default": lit|None}]
   "annotations": [str...],
   "rules": [{"in": [test...], "out": [lit...], "ann": [str...]}]}

literal  lit  = ["n", "12.50"] | ["s", "text"] | ["b", true]
              | ["date", "2020-02-29"] | ["dt", "2020-02-29T10:00:00"] | ["dtd", "-P1DT2H"] | ["ym", "P1Y2M"]   (input columns only)
unary test    = ["-"] | ["lit", lit] | ["cmp", op, lit] | ["iv", lo_closed, lo_lit, hi_lit, hi_closed, alt_brackets]
              | ["or", [simple...]] | ["not", [simple...]]           (simple = lit/cmp/iv test)

Texts: `words(test)` gives the unbreakable pieces of the FEEL text (a drawing may put a line break between two pieces,
XML joins them with one space).
"""
import datetime
import re
from decimal import Decimal

HIT_POLICIES = ["U", "A", "P", "F", "R", "O", "C", "C+", "C<", "C>", "C#"]
XML_HIT_POLICY = {"U": ("UNIQUE", None), "A": ("ANY", None), "P": ("PRIORITY", None), "F": ("FIRST", None),
                  "R": ("RULE ORDER", None), "O": ("OUTPUT ORDER", None), "C": ("COLLECT", None),
                  "C+": ("COLLECT", "SUM"), "C<": ("COLLECT", "MIN"), "C>": ("COLLECT", "MAX"), "C#": ("COLLECT", "COUNT")}
# what the driver prints for the recognised / parsed table (Display of HitPolicy and BuiltinAggregator)
SUT_HIT_POLICY = {"U": ("UNIQUE", None), "A": ("ANY", None), "P": ("PRIORITY", None), "F": ("FIRST", None),
                  "R": ("RULE ORDER", None), "O": ("OUTPUT ORDER", None), "C": ("COLLECT LIST", "LIST"),
                  "C+": ("COLLECT SUM", "SUM"), "C<": ("COLLECT MIN", "MIN"), "C>": ("COLLECT MAX", "MAX"),
                  "C#": ("COLLECT COUNT", "COUNT")}
TYPE_REF = {"num": "number", "str": "string", "bool": "boolean", "date": "date", "dt": "dateTime", "dtd": "dayTimeDuration",
            "ym": "yearMonthDuration", "time": "time", "dtz": "dateTime"}
TEMPORAL = ("date", "dt", "dtd", "ym", "time", "dtz")
# explicit UTC offsets of `dtz` values (date and time with an offset; the key is the UTC instant, so one instant has many spellings)
DTZ_OFFSETS = [("Z", 0), ("+02:45", 9900), ("-02:45", -9900), ("+02:45:55", 9955), ("-02:45:55", -9955), ("-05:00:01", -18001),
               ("-00:00:30", -30), ("+14:00", 50400), ("-11:30", -41400), ("+00:00", 0), ("+05:45", 20700), ("-00:01", -60)]


class Tv:
    """A temporal input value: kind + integer key (day number / millisecond of the local time line / seconds / months / millisecond
    of the day) + its FEEL text.
    Values of one kind are totally ordered by the key; values of different kinds are never compared (dtable_ref._same_kind)."""
    __slots__ = ("kind", "key", "text")

    def __init__(self, kind, key, text):
        self.kind, self.key, self.text = kind, key, text

    def __eq__(self, o):
        return isinstance(o, Tv) and o.kind == self.kind and o.key == self.key

    def __ne__(self, o):
        return not self.__eq__(o)

    def __lt__(self, o):
        return self.key < o.key

    def __le__(self, o):
        return self.key <= o.key

    def __gt__(self, o):
        return self.key > o.key

    def __ge__(self, o):
        return self.key >= o.key

    def __hash__(self):
        return hash((self.kind, self.key))

    def __str__(self):
        return "%s:%d" % (self.kind, self.key)

    __repr__ = __str__


_DTD = re.compile(r"^(-?)P(?:(\d+)D)?(?:T(?:(\d+)H)?(?:(\d+)M)?(?:(\d+)S)?)?$")
_YM = re.compile(r"^(-?)P(?:(\d+)Y)?(?:(\d+)M)?$")


def temporal_key(kind, text):
    if kind == "date":
        return datetime.date.fromisoformat(text).toordinal()
    if kind == "dt":
        d = datetime.datetime.fromisoformat(text)
        return (d.toordinal() * 86400 + d.hour * 3600 + d.minute * 60 + d.second) * 1000 + d.microsecond // 1000
    if kind == "time":
        t = datetime.time.fromisoformat(text)
        return (t.hour * 3600 + t.minute * 60 + t.second) * 1000 + t.microsecond // 1000
    if kind == "dtz":
        for ot, off in DTZ_OFFSETS:
            if text.endswith(ot):
                return temporal_key("dt", text[:-len(ot)]) - off * 1000
        raise ValueError(text)
    if kind == "dtd":
        m = _DTD.match(text)
        v = int(m.group(2) or 0) * 86400 + int(m.group(3) or 0) * 3600 + int(m.group(4) or 0) * 60 + int(m.group(5) or 0)
        return -v if m.group(1) else v
    m = _YM.match(text)
    v = int(m.group(2) or 0) * 12 + int(m.group(3) or 0)
    return -v if m.group(1) else v


def temporal_text(kind, key, variant=0):
    """FEEL lexical form of the value with that key; variant 1 = a non-normalised spelling of a duration (PT36H, P14M)."""
    if kind == "date":
        return datetime.date.fromordinal(key).isoformat()
    if kind == "dtz":
        ot, off = DTZ_OFFSETS[variant % len(DTZ_OFFSETS)]
        return temporal_text("dt", key + off * 1000) + ot
    if kind in ("dt", "time"):
        sec, ms = divmod(key, 1000)
        frac = (".%03d" % ms).rstrip("0") if ms else ""
        if kind == "time":
            sec %= 86400
            return "%02d:%02d:%02d%s" % (sec // 3600, sec // 60 % 60, sec % 60, frac)
        d, sec = divmod(sec, 86400)
        return "%sT%02d:%02d:%02d%s" % (datetime.date.fromordinal(d).isoformat(), sec // 3600, sec // 60 % 60, sec % 60, frac)
    sign, v = ("-" if key < 0 else ""), abs(key)
    if kind == "dtd":
        if variant and v % 3600 == 0 and v:
            return "%sPT%dH" % (sign, v // 3600)
        d, r = divmod(v, 86400)
        h, r = divmod(r, 3600)
        mi, sec = divmod(r, 60)
        t = "".join("%d%s" % (x, u) for x, u in ((h, "H"), (mi, "M"), (sec, "S")) if x)
        if not d and not t:
            return "PT0S"
        return sign + "P" + ("%dD" % d if d else "") + ("T" + t if t else "")
    if variant and v:
        return "%sP%dM" % (sign, v)
    y, mo = divmod(v, 12)
    if not y and not mo:
        return "P0M"
    return sign + "P" + ("%dY" % y if y else "") + ("%dM" % mo if mo else "")

INPUT_NAMES = ["x", "y", "Age", "Order size", "Customer kind", "Risk", "total amount due", "k9", "Region code", "Delivery",
               "Weight kg", "Member level", "score_1", "w",
               # names whose first word is spelled like a hit policy marker (the corner cell of a drawing holds such a marker)
               "P value", "A level", "F score", "R squared", "U turn", "C section", "O ring"]
OUTPUT_NAMES = ["Discount", "Priority level", "Rating", "Fee", "Result code", "Hazard class", "z", "Approval status", "rate_2"]
TITLES = ["Discount", "Order options", "Sell options", "Applicant risk rating", "Routing", "Eligibility of the applicant", "T1"]
ANNOTATION_NAMES = ["Description", "Reference", "Note", "Why so", "Remarks (internal)"]
ANNOTATION_WORDS = ["Small", "order", "Large", "All", "orders", "Ref", "1", "2", "see", "§4.2", "n/a", "ok?", "check!", "legacy:", "A", "U",
                    "low-risk", "[tbd]", "50%", "Zażółć", "x<y"]
STRINGS = ["a", "b", "m", "Business", "Private", "Government", "High", "Low", "Medium", "good", "bad", "same day", "N/A", "k-1",
           "Zürich", "x y z", "B", "ab", "abc", "", "10", "é"]


# ------------------------------------------------------------------------------------------------------------------
# texts
# ------------------------------------------------------------------------------------------------------------------

def lit_text(l):
    k, v = l
    if k == "in":
        return v            # an output entry / default output entry that is not a literal: the name of an input expression
    if k == "n":
        return v
    if k == "s":
        return '"%s"' % v
    if k == "date":
        return 'date("%s")' % v
    if k in ("dt", "dtz"):
        return 'date and time("%s")' % v
    if k == "time":
        return 'time("%s")' % v
    if k in ("dtd", "ym"):
        return 'duration("%s")' % v
    return "true" if v else "false"


def simple_text(t):
    k = t[0]
    if k == "lit":
        return lit_text(t[1])
    if k == "cmp":
        return t[1] + lit_text(t[2])
    if k == "iv":
        _, lc, lo, hi, hc, alt = t
        lb = ("[" if lc else ("]" if alt else "("))
        rb = ("]" if hc else ("[" if alt else ")"))
        return "%s%s..%s%s" % (lb, lit_text(lo), lit_text(hi), rb)
    raise ValueError(t)


def words(t):
    """Unbreakable pieces of the FEEL text of a unary test (list of tests for allowed values is handled by values_words)."""
    k = t[0]
    if k == "-":
        return ["-"]
    if k in ("lit", "cmp", "iv"):
        return [simple_text(t)]
    parts = [simple_text(x) for x in t[1]]
    parts = [p + "," for p in parts[:-1]] + [parts[-1]]
    if k == "or":
        return parts
    if k == "not":
        parts[0] = "not(" + parts[0]
        parts[-1] = parts[-1] + ")"
        return parts
    raise ValueError(t)


def values_words(tests):
    """Allowed values: comma separated simple tests / literals."""
    parts = [simple_text(x) if x[0] in ("lit", "cmp", "iv") else lit_text(x) for x in tests]
    return [p + "," for p in parts[:-1]] + [parts[-1]]


def text_of(ws):
    return " ".join(ws)


def name_words(name):
    return name.split(" ") if name else []


def norm(s):
    """Whitespace normalisation under which a cell text and the model text are compared."""
    return None if s is None else " ".join(s.split())


def tests_in(t):
    return t[1] if t[0] in ("or", "not") else ([] if t[0] == "-" else [t])


def has_negative_endpoint(t):
    """A comparison or interval whose end point is a negative number (the SUT's grammar has no such production)."""
    for x in tests_in(t):
        if x[0] == "cmp" and x[2][0] == "n" and x[2][1].startswith("-"):
            return True
        if x[0] == "iv" and any(e[0] == "n" and e[1].startswith("-") for e in (x[2], x[3])):
            return True
    return False


def table_negative_endpoints(T):
    for c in T["inputs"]:
        if c["values"] and any(has_negative_endpoint(t) for t in c["values"]):
            return True
    return any(has_negative_endpoint(e) for r in T["rules"] for e in r["in"])


def negation_kinds(t):
    """Kinds of items under not(...): 'iv', 'b' (boolean literal), 'lit', 'cmp'."""
    if t[0] != "not":
        return set()
    out = set()
    for x in t[1]:
        if x[0] == "iv":
            out.add("iv")
        elif x[0] == "lit" and x[1][0] == "b":
            out.add("b")
        else:
            out.add(x[0])
    return out


# ------------------------------------------------------------------------------------------------------------------
# conversion to the generic dict of dmn_xml.decision_table and to scopes/contexts of the driver
# ------------------------------------------------------------------------------------------------------------------

def xml_table(T, typed=True):
    hp, agg = XML_HIT_POLICY[T["hp"]]
    single = len(T["outputs"]) == 1
    return {
        "hit_policy": hp, "aggregation": agg, "output_label": T.get("label"),
        "inputs": [{"expr": c["expr"], "type_ref": TYPE_REF[c["kind"]] if typed else None,
                    "values": text_of(values_words(c["values"])) if c["values"] else None} for c in T["inputs"]],
        "outputs": [{"name": (c["name"] if not single else (c["name"] or None)), "type_ref": TYPE_REF[c["kind"]] if typed else None,
                     "values": text_of(values_words(c["values"])) if c["values"] else None,
                     "default": lit_text(c["default"]) if c.get("default") else None} for c in T["outputs"]],
        "rules": [{"in": [text_of(words(e)) for e in r["in"]], "out": [lit_text(o) for o in r["out"]]} for r in T["rules"]],
    }


def wire(v):
    """python value of an input -> driver binding encoding."""
    if v is None:
        return None
    if isinstance(v, bool):
        return v
    if isinstance(v, Decimal):
        return {"n": format(v, "f")}
    if isinstance(v, str):
        return {"s": v}
    if isinstance(v, Tv):
        return {"feel": lit_text([v.kind, v.text])}
    raise ValueError(v)


def lit_value(l):
    k, v = l
    if k == "in":
        return ("input-ref", v)      # only for grouping tables by shape; the reference evaluates resolve_refs(T, tuple)
    if k == "n":
        return Decimal(v)
    if k in TEMPORAL:
        return Tv(k, temporal_key(k, v), v)
    return v


def input_value(jv):
    """JSON form of an input value in a case (['n',text] | ['s',text] | ['b',bool] | None) -> python value."""
    return None if jv is None else lit_value(jv)


def resolve_refs(T, tup):
    """The table with every output entry / default output entry that names an input replaced by that input's value in this tuple
    (None when such an input is null in the tuple: then nothing is asserted). Tables without such entries are returned as they are."""
    by_name = {c["expr"]: v for c, v in zip(T["inputs"], tup)}
    hit = [False]

    def res(l):
        if l is not None and l[0] == "in":
            hit[0] = True
            return by_name.get(l[1])
        return l
    outs = [dict(c, default=res(c.get("default")) if c.get("default") else None) for c in T["outputs"]]
    rules = [dict(r, out=[res(o) for o in r["out"]]) for r in T["rules"]]
    if not hit[0]:
        return T
    if any(c["default"] is None and o.get("default") for c, o in zip(outs, T["outputs"])) or any(o is None for r in rules for o in r["out"]):
        return None
    return dict(T, outputs=outs, rules=rules)


def context_of(T, tup):
    """[[name, wire value]...] for one input tuple (JSON literals or None)."""
    return [[c["expr"], wire(input_value(v))] for c, v in zip(T["inputs"], tup)]


# ------------------------------------------------------------------------------------------------------------------
# generator
# ------------------------------------------------------------------------------------------------------------------

def gen_number(src, neg_ok=True):
    shape = src.weighted([(6, "int"), (3, "d1"), (2, "d2"), (1, "big")])
    if shape == "int":
        v = str(src.int(0, 20) if not src.bool(0.3) else src.int(0, 120))
    elif shape == "d1":
        v = "%d.%d" % (src.int(0, 20), src.int(0, 9))
    elif shape == "d2":
        v = "%d.%02d" % (src.int(0, 3), src.int(0, 99))
    else:
        v = str(src.int(1000, 100000))
    if neg_ok and src.bool(0.12):
        v = "-" + v
    return v


def gen_temporal(src, kind):
    """text of a temporal literal: values close to each other (days / seconds / months apart) so that comparisons have near misses"""
    if kind == "date":
        return temporal_text(kind, datetime.date(2020, 2, 27).toordinal() + src.weighted([(4, src.int(0, 5)), (2, src.int(-400, 400)), (1, src.int(-200000, 200000))]))
    if kind == "dt":
        base = datetime.date(2021, 12, 31).toordinal() * 86400 + 86390
        sec = base + src.weighted([(4, src.int(0, 20)), (2, src.int(-90000, 90000)), (1, src.int(-10 ** 9, 10 ** 9))])
        # fractions of a second: several values inside one second
        return temporal_text(kind, sec * 1000 + src.weighted([(4, 0), (2, 500), (1, 250), (1, 1), (1, 999), (1, src.int(0, 999))]))
    if kind == "dtz":
        base = datetime.date(2021, 3, 1).toordinal() * 86400 + 10
        sec = base + src.weighted([(4, src.int(0, 120)), (2, src.int(-90000, 90000)), (1, src.int(-10 ** 8, 10 ** 8))])
        return temporal_text(kind, sec * 1000 + src.weighted([(6, 0), (1, 500), (1, src.int(0, 999))]), variant=src.int(0, len(DTZ_OFFSETS) - 1))
    if kind == "time":
        sec = src.weighted([(4, 36000 + src.int(0, 5)), (2, src.int(0, 86399)), (1, 0), (1, 86399)])
        return temporal_text(kind, sec * 1000 + src.weighted([(4, 0), (2, 500), (1, 250), (1, 1), (1, 999), (1, src.int(0, 999))]))
    if kind == "dtd":
        key = src.weighted([(3, src.int(-3, 3) * 3600), (3, src.int(-5, 5) * 86400 + src.int(0, 2) * 3600), (2, src.int(-100000, 100000)), (1, 0)])
        return temporal_text(kind, key, variant=1 if src.bool(0.3) else 0)
    key = src.weighted([(4, src.int(-30, 30)), (2, src.int(-3, 3) * 12), (1, src.int(-5000, 5000)), (1, 0)])
    return temporal_text(kind, key, variant=1 if src.bool(0.3) else 0)


def _time_ok(text):
    try:
        datetime.time.fromisoformat(text)
        return True
    except ValueError:
        return False


def gen_temporal_default(kind):
    return {"date": "2020-02-29", "dt": "2021-12-31T23:59:59", "dtd": "PT0S", "ym": "P0M", "time": "12:00:00", "dtz": "2021-03-01T00:00:10Z"}[kind]


def gen_pool(src, kind, lo=2, hi=4, neg_ok=True):
    """Distinct literals of one kind (the points around which a column's entries are written)."""
    n = src.int(lo, hi)
    out = []
    if kind == "bool":
        return [["b", True], ["b", False]]
    tries = 0
    while len(out) < n and tries < 40:
        tries += 1
        if kind == "num":
            l = ["n", gen_number(src, neg_ok)]
            if any(Decimal(x[1]) == Decimal(l[1]) for x in out):
                continue
        elif kind in TEMPORAL:
            l = [kind, gen_temporal(src, kind)]
            if any(lit_value(x) == lit_value(l) for x in out):
                continue
        else:
            l = ["s", src.choice(STRINGS)]
            if l in out:
                continue
        out.append(l)
    return out


def _sorted_pool(pool):
    return sorted(pool, key=lambda l: lit_value(l))


def gen_simple(src, kind, pool, allow_neg_endpoint):
    """lit / cmp / iv over the pool."""
    if kind == "bool":
        return ["lit", src.choice(pool)]
    shape = src.weighted([(5, "lit"), (3, "cmp"), (3, "iv")]) if (kind == "num" or kind in TEMPORAL) else src.weighted([(8, "lit"), (1, "cmp"), (1, "iv")])

    def endpoint_ok(l):
        return allow_neg_endpoint or not (l[0] == "n" and l[1].startswith("-"))
    if shape == "cmp":
        l = src.choice(pool)
        if endpoint_ok(l):
            return ["cmp", src.choice(["<", "<=", ">", ">="]), l]
        shape = "lit"
    if shape == "iv" and len(pool) >= 2:
        a, b = src.sample(pool, 2)
        if lit_value(a) > lit_value(b):
            a, b = b, a
        if endpoint_ok(a) and endpoint_ok(b):
            return ["iv", src.bool(0.5), a, b, src.bool(0.5), src.bool(0.25)]
    return ["lit", src.choice(pool)]


def gen_entry(src, kind, pool, allow_neg_endpoint):
    if kind == "bool":
        shape = src.weighted([(3, "-"), (6, "lit"), (1, "or"), (1, "not")])
    elif kind == "num" or kind in TEMPORAL:
        shape = src.weighted([(3, "-"), (9, "simple"), (2, "or"), (2, "not")])
    else:
        shape = src.weighted([(3, "-"), (7, "simple"), (3, "or"), (2, "not")])
    if shape == "-":
        return ["-"]
    if shape in ("lit", "simple"):
        return gen_simple(src, kind, pool, allow_neg_endpoint)
    items = [gen_simple(src, kind, pool, allow_neg_endpoint) for _ in range(src.int(1 if shape == "not" else 2, 3))]
    if shape == "not" and not src.bool(0.25):
        # negated intervals / booleans only in a quarter of the negations (an open finding sits there; keep the rest searchable)
        items = [x if not (x[0] == "iv" or (x[0] == "lit" and x[1][0] == "b")) else
                 (["lit", x[2]] if x[0] == "iv" else None) for x in items]
        if any(x is None for x in items):
            return ["lit", src.choice(pool)]
    return [shape, items]


def pick_names(src, pool, n):
    return src.sample(pool, n)


def gen_annotation_text(src):
    n = src.weighted([(2, 1), (3, 2), (2, 3), (1, 0), (1, 5)])
    return " ".join(src.choice(ANNOTATION_WORDS) for _ in range(n))


def gen_table(src, max_inputs=4, max_outputs=3, min_rules=0, max_rules=8, max_annotations=0, drawable=False,
              hp=None, neg_endpoint_rate=0.04, temporal=False):
    """drawable: >=1 rule, allowed values all-or-nothing, no default output entries."""
    hp = hp or src.choice(HIT_POLICIES)
    ni = src.int(1, max_inputs)
    no = src.int(1, max_outputs)
    nr = src.int(max(min_rules, 1 if drawable else 0), max_rules)
    na = src.int(0, max_annotations) if max_annotations else 0
    allow_neg_endpoint = src.bool(neg_endpoint_rate)
    in_names = pick_names(src, INPUT_NAMES, ni)
    out_names = pick_names(src, OUTPUT_NAMES, no)
    all_values = src.bool(0.4)              # allowed values on every clause (the only form a drawing can have)
    inputs, pools = [], []
    for j in range(ni):
        kind = src.weighted([(5, "num"), (4, "str"), (1, "bool")])
        if temporal and src.bool(0.22):
            kind = src.choice(TEMPORAL)
        pool = gen_pool(src, kind)
        pools.append(pool)
        have_values = all_values if drawable else src.bool(0.3)
        values = None
        if have_values:
            if kind == "str":
                keep = list(pool)
                if len(keep) > 2 and src.bool(0.3):
                    keep = keep[:-1]               # one literal used by entries is not allowed
                values = [["lit", l] for l in keep]
            elif kind == "bool":
                values = [["lit", ["b", True]], ["lit", ["b", False]]]
            else:
                sp = _sorted_pool(pool)
                lo, hi = sp[0], sp[-1]
                nonneg = not (lo[1].startswith("-") or hi[1].startswith("-"))
                form = src.weighted([(3, "iv"), (2, "cmps"), (2, "list")])
                if form == "iv" and (nonneg or allow_neg_endpoint):
                    values = [["iv", True, lo, hi, True, False]]
                elif form == "cmps" and (nonneg or allow_neg_endpoint):
                    values = [["cmp", ">=", lo], ["cmp", "<", lo]] if src.bool(0.5) else [["cmp", "<=", hi]]
                else:
                    values = [["lit", l] for l in sp]
        inputs.append({"expr": in_names[j], "kind": kind, "values": values})
    outputs, opools = [], []
    for j in range(no):
        kind = src.weighted([(1, "num"), (1, "str")])
        if j == 0 and hp in ("C+", "C<", "C>"):
            kind = "num"
        opool = gen_pool(src, kind, 2, 4)
        if src.bool(0.5) and j > 0 and outputs[0]["kind"] == kind:
            # the same literals may be allowed for two components, in a different order
            opool = src.shuffle(opools[0])
        opools.append(opool)
        if hp in ("P", "O"):
            have_values = True if (j == 0 or drawable) else src.bool(0.6)
        else:
            have_values = all_values if drawable else src.bool(0.25)
        if drawable and hp in ("P", "O"):
            have_values = True
        default = None
        if not drawable and src.bool(0.3):
            default = src.choice(opool)
        outputs.append({"name": out_names[j] if no > 1 else None, "kind": kind,
                        "values": [l for l in opool] if have_values else None, "default": default})
    if drawable and hp in ("P", "O"):
        # all-or-nothing: priority policies need output values, so inputs get allowed values as well
        for j, c in enumerate(inputs):
            if c["values"] is None:
                if c["kind"] == "bool":
                    c["values"] = [["lit", ["b", True]], ["lit", ["b", False]]]
                else:
                    c["values"] = [["lit", l] for l in (_sorted_pool(pools[j]) if c["kind"] == "num" else pools[j])]
    rules = []
    for r in range(nr):
        if rules and src.bool(0.3):
            ins = [list(e) if isinstance(e, list) else e for e in rules[src.int(0, len(rules) - 1)]["in"]]
            if src.bool(0.5):
                k = src.int(0, ni - 1)
                ins[k] = gen_entry(src, inputs[k]["kind"], pools[k], allow_neg_endpoint)
        else:
            ins = [gen_entry(src, inputs[j]["kind"], pools[j], allow_neg_endpoint) for j in range(ni)]
        if rules and src.bool(0.25):
            outs = list(rules[src.int(0, len(rules) - 1)]["out"])
        else:
            outs = [src.choice(opools[j]) for j in range(no)]
        if src.bool(0.1):
            # the same number spelled differently (7 / 7.0 / 7.00): equal as a value for ANY, priorities and aggregators
            outs = [["n", o[1] + (".0" if "." not in o[1] else "0")] if o[0] == "n" else o for o in outs]
        rules.append({"in": ins, "out": outs, "ann": [gen_annotation_text(src) for _ in range(na)]})
    if not drawable and src.bool(0.3):
        # output entries and default output entries need not be literals: some of them name an input expression of the output's kind
        for j, c in enumerate(outputs):
            same = [i["expr"] for i in inputs if i["kind"] == c["kind"]]
            if not same or c["values"]:
                continue
            if c["default"] is not None and src.bool(0.6):
                c["default"] = ["in", src.choice(same)]
            if rules and src.bool(0.4):
                r = rules[src.int(0, len(rules) - 1)]
                r["out"] = list(r["out"])
                r["out"][j] = ["in", src.choice(same)]
    T = {"hp": hp,
         "name": src.choice(TITLES) if src.bool(0.5) else None,
         "label": src.choice(TITLES + OUTPUT_NAMES) if src.bool(0.6) else None,
         "inputs": inputs, "outputs": outputs,
         "annotations": pick_names(src, ANNOTATION_NAMES, na),
         "rules": rules}
    return T


def is_drawable(T):
    if not T["rules"]:
        return False
    if any(c["kind"] in TEMPORAL for c in T["inputs"]):
        return False
    flags = [c["values"] is not None for c in T["inputs"]] + [c["values"] is not None for c in T["outputs"]]
    if any(flags) and not all(flags):
        return False
    return True


# ------------------------------------------------------------------------------------------------------------------
# boundary points of a column: the values from which input tuples are derived
# ------------------------------------------------------------------------------------------------------------------

def column_literals(T, j):
    out = []
    c = T["inputs"][j]
    for t in (c["values"] or []):
        for x in tests_in(t):
            out.extend([x[1]] if x[0] == "lit" else ([x[2]] if x[0] == "cmp" else [x[2], x[3]]))
    for r in T["rules"]:
        for x in tests_in(r["in"][j]):
            out.extend([x[1]] if x[0] == "lit" else ([x[2]] if x[0] == "cmp" else [x[2], x[3]]))
    return out


def boundary_points(T, j):
    """JSON literals: every literal of the column, its neighbours on both sides, and values outside everything."""
    kind = T["inputs"][j]["kind"]
    lits = column_literals(T, j)
    if kind == "bool":
        return [["b", True], ["b", False]]
    seen, out = set(), []

    def add(l):
        key = (l[0], str(lit_value(l)) if l[0] != "n" else str(Decimal(l[1]).normalize()))
        if key not in seen:
            seen.add(key)
            out.append(l)
    if kind == "num":
        vals = [Decimal(l[1]) for l in lits if l[0] == "n"] or [Decimal(0)]
        exp = min([v.as_tuple().exponent for v in vals] + [0])
        step = Decimal(1).scaleb(exp - 1)          # one decimal place finer than anything written in the column
        for v in vals:
            for w in (v, v - step, v + step):
                add(["n", format(w, "f")])
        add(["n", format(min(vals) - 1000, "f")])
        add(["n", format(max(vals) + 1000, "f")])
        return out
    if kind in TEMPORAL:
        keys = [temporal_key(l[0], l[1]) for l in lits if l[0] == kind] or [temporal_key(kind, gen_temporal_default(kind))]
        for l in lits:
            if l[0] == kind:
                add(l)                                # the spelling used in the table
        for n, v in enumerate(keys):
            for j, w in enumerate((v, v - 1, v + 1)):
                # (dtz: each boundary instant is written with another offset than the table's literal, rotating through the offsets)
                add([kind, temporal_text(kind, w, variant=(n * 3 + j + 1) if kind == "dtz" else 0)])
            if kind == "dtz":
                for j, w in enumerate((v - 60000, v + 60000, v - 110000, v + 110000)):    # within twice the largest offset seconds
                    add([kind, temporal_text(kind, w, variant=n * 5 + j + 4)])
        for v in keys:
            if kind in ("dt", "time"):
                for w in (v - 1000, v + 1000, v - v % 1000, v - v % 1000 + 999):      # the neighbouring seconds, both ends of this second
                    add([kind, temporal_text(kind, w)])
        if kind == "time":
            add([kind, "00:00:00"])
            add([kind, "23:59:59.999"])
            return [l for l in out if 0 <= temporal_key("time", l[1]) < 86400000 and _time_ok(l[1])]
        far = 1000 if kind not in ("dt", "dtz") else 10 ** 10
        add([kind, temporal_text(kind, min(keys) - far)])
        add([kind, temporal_text(kind, max(keys) + far)])
        return out
    svals = [l[1] for l in lits if l[0] == "s"] or ["a"]
    for s in svals:
        add(["s", s])
        add(["s", s + " "])                          # immediately after s in code point order
        add(["s", s + "a"])
        if s:
            add(["s", s[:-1]])                       # before s
            add(["s", s[:-1] + chr(max(32, ord(s[-1]) - 1))])
    add(["s", ""])
    add(["s", "~~~"])
    add(["s", "ÿÿ"])
    return out
