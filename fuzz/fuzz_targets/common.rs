// Shared by the fuzz targets: panic allow-list (open findings only) and strict mode.
use std::sync::Mutex;

pub static LAST: Mutex<Option<String>> = Mutex::new(None);

/// Panic locations of OPEN findings, one `file:line` suffix per line in VFUZZ_ALLOW (set by the runner from
/// /verif/known_findings.json). Empty in strict mode (replay).
pub fn allowed(loc: &str) -> bool {
  match std::env::var("VFUZZ_ALLOW") {
    Ok(list) => list.split(',').any(|a| !a.is_empty() && loc.ends_with(a)),
    Err(_) => false,
  }
}

pub fn install_hook() {
  static ONCE: std::sync::Once = std::sync::Once::new();
  ONCE.call_once(|| {
    let default = std::panic::take_hook();
    std::panic::set_hook(Box::new(move |info| {
      let loc = info.location().map(|l| format!("{}:{}", l.file(), l.line())).unwrap_or_default();
      if let Ok(mut g) = LAST.lock() {
        *g = Some(loc.clone());
      }
      if !allowed(&loc) {
        default(info);
      }
    }));
  });
}

/// Runs f; a panic at an allow-listed location is swallowed, any other panic aborts (libFuzzer records the input).
pub fn guarded<F: FnOnce()>(f: F) {
  install_hook();
  let r = std::panic::catch_unwind(std::panic::AssertUnwindSafe(f));
  if r.is_err() {
    let loc = LAST.lock().ok().and_then(|mut g| g.take()).unwrap_or_default();
    if !allowed(&loc) {
      eprintln!("VFUZZ-PANIC at {}", loc);
      std::process::abort();
    }
  }
}
