#![no_main]
//! C05 (totality) with in-target oracles of C13 (a successful parse leaves the scope unchanged; evaluating twice
//! gives equal values; evaluation leaves the scope unchanged).
mod common;
use arbitrary::{Arbitrary, Unstructured};
use dmntk_feel::context::FeelContext;
use dmntk_feel::values::{Value, Values};
use dmntk_feel::{FeelNumber, Name, Scope};
use libfuzzer_sys::fuzz_target;

fn scope_for(sel: u8) -> Scope {
  let mut ctx = FeelContext::default();
  match sel % 4 {
    0 => {}
    1 => {
      ctx.set_entry(&Name::from("a"), Value::Number(FeelNumber::from_i128(1)));
      ctx.set_entry(&Name::from("b"), Value::String("x".to_string()));
      ctx.set_entry(&Name::from("xs"), Value::List(Values::new(vec![Value::Number(FeelNumber::from_i128(1)), Value::Number(FeelNumber::from_i128(2))])));
    }
    2 => {
      ctx.set_entry(&Name::from("a b"), Value::Number(FeelNumber::from_i128(2)));
      ctx.set_entry(&Name::from("a-b"), Value::Number(FeelNumber::from_i128(3)));
      ctx.set_entry(&Name::from("a"), Value::Number(FeelNumber::from_i128(5)));
      ctx.set_entry(&Name::from("c.d"), Value::Boolean(true));
      let mut inner = FeelContext::default();
      inner.set_entry(&Name::from("g h"), Value::Number(FeelNumber::from_i128(7)));
      ctx.set_entry(&Name::from("e f"), Value::Context(inner));
    }
    _ => {
      ctx.set_entry(&Name::from("in.x"), Value::Number(FeelNumber::from_i128(1)));
      ctx.set_entry(&Name::from("for all"), Value::Number(FeelNumber::from_i128(2)));
      ctx.set_entry(&Name::from("date x"), Value::Null(None));
    }
  }
  ctx.into()
}

fuzz_target!(|data: &[u8]| {
  let mut u = Unstructured::new(data);
  let entry = u8::arbitrary(&mut u).unwrap_or(0);
  let sel = u8::arbitrary(&mut u).unwrap_or(0);
  let rest = u.take_rest();
  let text = match std::str::from_utf8(rest) {
    Ok(t) => t,
    Err(_) => return,
  };
  if text.len() > 400 {
    return;
  }
  common::guarded(|| {
    use dmntk_feel_parser::*;
    let scope = scope_for(sel);
    let before = scope.to_string();
    let node = match entry % 7 {
      0 => parse_expression(&scope, text, false),
      1 => parse_textual_expression(&scope, text, false),
      2 => parse_textual_expressions(&scope, text, false),
      3 => parse_boxed_expression(&scope, text, false),
      4 => parse_context(&scope, text, false),
      5 => parse_unary_tests(&scope, text, false),
      _ => {
        let _ = parse_name(&scope, text, false);
        let _ = parse_longest_name(text);
        return;
      }
    };
    if let Ok(node) = node {
      // C13: a successful parse leaves the parsing scope as it found it
      assert_eq!(before, scope.to_string(), "successful parse changed the scope");
      if entry % 7 != 4 {
        if let Ok(evaluator) = dmntk_feel_evaluator::prepare(&node) {
          let v1 = evaluator(&scope);
          assert_eq!(before, scope.to_string(), "evaluation changed the scope");
          // values depending on the current date/time are excepted by the property
          if !(text.contains("now") || text.contains("today") || text.contains('@') || text.contains("time")) {
            let v2 = evaluator(&scope);
            assert_eq!(v1.to_string(), v2.to_string(), "evaluating twice gave different values");
          }
        }
      } else {
        let _ = dmntk_feel_evaluator::evaluate_context_node(&scope, &node);
        assert_eq!(before, scope.to_string(), "context evaluation changed the scope");
      }
    }
  });
});
