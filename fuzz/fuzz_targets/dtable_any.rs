#![no_main]
//! C19 robustness: arbitrary text is recognised or rejected with an error, never with a panic; a recognised table
//! can be handed to the evaluator builder.
mod common;
use dmntk_feel::Scope;
use libfuzzer_sys::fuzz_target;

fuzz_target!(|data: &[u8]| {
  let text = match std::str::from_utf8(data) {
    Ok(t) => t,
    Err(_) => return,
  };
  common::guarded(|| {
    if let Ok(table) = dmntk_recognizer::build(text) {
      let scope = Scope::default();
      let _ = dmntk_model_evaluator::build_decision_table_evaluator(&scope, &table);
    }
  });
});
