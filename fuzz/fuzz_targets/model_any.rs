#![no_main]
//! C12: loading any text yields a usable model or an error; every invocable of a built model returns a value.
mod common;
use dmntk_feel::context::FeelContext;
use dmntk_model::model::NamedElement;
use libfuzzer_sys::fuzz_target;

fuzz_target!(|data: &[u8]| {
  let text = match std::str::from_utf8(data) {
    Ok(t) => t,
    Err(_) => return,
  };
  common::guarded(|| {
    if let Ok(defs) = dmntk_model::parse(text) {
      let mut names: Vec<String> = vec![];
      for d in defs.decisions() {
        names.push(d.name().to_string());
      }
      for d in defs.business_knowledge_models() {
        names.push(d.name().to_string());
      }
      for d in defs.decision_services() {
        names.push(d.name().to_string());
      }
      if let Ok(me) = dmntk_model_evaluator::ModelEvaluator::new(&defs) {
        let input = FeelContext::default();
        for n in &names {
          let _ = me.evaluate_invocable(n, &input);
        }
      }
    }
  });
});
